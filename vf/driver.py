#!/usr/bin/env python3
"""driver.py - run the solver-based checks of one property.

usage: driver.py <property id> [--tier quick|thorough] [--only harness[:case]]
                 [--replay <tape>] [--keep] [--jobs N]

Exit: 0 property held on everything explored (KNOWN-FINDING lines possible)
      1 confirmed violation not listed in known_findings.json
      2 machinery failure (vacuous harness, unconfirmed counterexample, ...)
      3 inconclusive (solver/time/memory cap hit)
"""
import argparse
import concurrent.futures as cf
import json
import os
import re
import resource
import shutil
import subprocess
import sys
import tempfile
import time

VERIF = os.path.dirname(os.path.dirname(os.path.abspath(__file__)))
sys.path.insert(0, VERIF)
from vf import derive as vderive  # noqa: E402

REPO = os.environ.get("VF_REPO", "/repo")

INCLUDES = ["core/config", "core/include", "core/osdep/include",
            "core/include/sfzcl", ".", "matrixssl", "crypto", "core"]

DEFAULT_CHECKS = ["--bounds-check", "--pointer-check", "--div-by-zero-check",
                  "--undefined-shift-check"]

# functions allowed to have no body after --drop-unused-functions
UNDEF_WHITELIST = {"nondet_u8", "nondet_u16", "nondet_u32", "nondet_u64"}


def load_spec(prop):
    path = os.path.join(VERIF, "harness", prop, "spec.py")
    cpath = os.path.join(VERIF, "harness", "common", "specs.py")
    cg = {"__file__": cpath}
    with open(cpath) as f:
        exec(compile(f.read(), cpath, "exec"), cg)
    g = {"__file__": path, "COMMON": cg}
    with open(path) as f:
        exec(compile(f.read(), path, "exec"), g)
    return g


def load_known():
    p = os.path.join(VERIF, "known_findings.json")
    if not os.path.exists(p):
        return []
    with open(p) as f:
        return json.load(f).get("findings", [])


def _limits(mem_gb):
    def fn():
        lim = int(mem_gb * (1 << 30))
        resource.setrlimit(resource.RLIMIT_AS, (lim, lim))
        os.setsid()
    return fn


def run(cmd, cwd=None, timeout=None, mem_gb=None, stdout_path=None):
    t0 = time.time()
    out_f = open(stdout_path, "wb") if stdout_path else subprocess.PIPE
    try:
        p = subprocess.Popen(cmd, cwd=cwd, stdout=out_f, stderr=subprocess.PIPE,
                             preexec_fn=_limits(mem_gb) if mem_gb else os.setsid)
        try:
            o, e = p.communicate(timeout=timeout)
            rc = p.returncode
        except subprocess.TimeoutExpired:
            try:
                os.killpg(p.pid, 9)
            except ProcessLookupError:
                pass
            o, e = p.communicate()
            rc = -999
    finally:
        if stdout_path:
            out_f.close()
    return rc, (o or b"").decode("utf-8", "replace"), (e or b"").decode("utf-8", "replace"), time.time() - t0


class Ctx:
    def __init__(self, prop, tier, scratch, keep=False):
        self.prop = prop
        self.tier = tier
        self.scratch = scratch
        self.keep = keep


def inc_flags(root):
    return ["-I" + os.path.join(root, i) for i in INCLUDES] + ["-I" + os.path.join(VERIF, "include"),
                                                                "-I" + os.path.join(VERIF, "ref"),
                                                                "-I" + os.path.join(VERIF, "models"), "-I" + os.path.join(VERIF, "harness", "common")]


def def_flags(defs):
    out = []
    for k, v in (defs or {}).items():
        out.append("-D%s=%s" % (k, v) if v is not None else "-D%s" % k)
    return out


def prepare_harness(ctx, h):
    """derive the tree for one harness; returns (root, log)"""
    root = os.path.join(ctx.scratch, "d_" + h["name"])
    log = []
    vderive.derive(REPO, root, h.get("renames"), log, asm=h.get("asm2c", True), guards=h.get("guards"))
    # harness sources are copied next to the derived tree so that relative
    # includes of shared harness helpers work
    hdir = os.path.join(VERIF, "harness", h.get("dir", ctx.prop))
    dst = os.path.join(root, "vf_harness")
    shutil.copytree(hdir, dst)
    return root, log


def asm_left(root, src, defs, extra_units):
    """closed-world check for inline assembly: preprocess with gcc and look for asm"""
    found = []
    for s in [src] + list(extra_units):
        cmd = ["gcc", "-E", "-P", "-DMATRIXSSL_VERIF", "-DVF_CBMC"] + def_flags(defs) + inc_flags(root) + [s]
        rc, o, e, _ = run(cmd, timeout=120)
        if rc != 0:
            return ["preprocess failed: " + e[-400:]]
        for m in re.finditer(r'(?<![A-Za-z0-9_])(__asm__|__asm|asm)\b\s*(volatile\s*)?\(', o):
            # asm *labels* on declarations (glibc symbol renaming) are not code:
            # a statement follows ';', '{', '}' or ':' (or carries volatile)
            k = m.start() - 1
            while k >= 0 and o[k] in " \t\n":
                k -= 1
            if k >= 0 and o[k] not in ";{}:" and not m.group(2):
                continue
            ctxt = o[m.start():m.start() + 60].replace("\n", " ")
            found.append(ctxt)
    return found


def list_loops(gb):
    """[(loop id, file path, line)] from goto-instrument --show-loops"""
    rc, o, e, dt = run(["goto-instrument", "--show-loops", gb], timeout=600)
    out = []
    cur = None
    for line in o.splitlines():
        m = re.match(r"Loop (\S+):", line)
        if m:
            cur = m.group(1)
            continue
        m = re.match(r"\s+file (\S+) line (\d+) function (\S+)", line)
        if m and cur:
            out.append((cur, m.group(1), int(m.group(2))))
            cur = None
    return out


_src_cache = {}


def _src_lines(path):
    if path not in _src_cache:
        try:
            with open(path, errors="replace") as f:
                _src_cache[path] = f.read().splitlines()
        except OSError:
            _src_cache[path] = []
    return _src_cache[path]


def resolve_unwindset(gb, spec):
    """spec keys are either CBMC loop ids ("f.3") or "function:/regex/" which
    selects every loop of that function whose head (source lines line-1..line+4)
    matches the regex - robust against renumbering when code is edited"""
    out = {}
    notes = []
    loops = None
    for k, v in spec.items():
        m = re.match(r"^([A-Za-z_][A-Za-z0-9_]*):/(.*)/$", k)
        if not m:
            out[k] = v
            continue
        if loops is None:
            loops = list_loops(gb)
        fn, rx = m.group(1), re.compile(m.group(2))
        hit = 0
        for lid, path, line in loops:
            if lid.rsplit(".", 1)[0] != fn:
                continue
            src = _src_lines(path)
            window = "\n".join(src[max(0, line - 2):line + 4])
            if rx.search(window):
                out[lid] = max(out.get(lid, 0), v)
                hit += 1
        if not hit:
            notes.append("no loop matches %s" % k)
    return out, notes


_dup_cache = {}


def duplicate_definitions(ctx, h, case, root, defs):
    """goto-cc silently keeps the first of two definitions of a function.
    Compile every translation unit natively and report external functions
    defined in more than one of them (a stub in the harness must be paired
    with a rename of the real definition in the spec)."""
    key = (h["name"], tuple(sorted((k, str(v)) for k, v in defs.items() if k != "VF_N")))
    if key in _dup_cache:
        return _dup_cache[key]
    wd = os.path.join(ctx.scratch, "dup_" + h["name"] + "_" + case["name"])
    os.makedirs(wd, exist_ok=True)
    src = os.path.join(root, "vf_harness", h["src"])
    units = [os.path.join(root, u) for u in h.get("units", [])]
    seen = {}
    dups = []
    for i, tu in enumerate([src] + units):
        obj = os.path.join(wd, "tu%d.o" % i)
        cmd = ["gcc", "-c", "-w", "-O0", "-DMATRIXSSL_VERIF", "-DVF_NATIVE"] + def_flags(defs) + inc_flags(root) + \
            h.get("cflags", []) + [tu, "-o", obj]
        rc, o, e, dt = run(cmd, timeout=600)
        if rc != 0:
            _dup_cache[key] = ["native compile of %s failed: %s" % (os.path.basename(tu), e[-800:])]
            return _dup_cache[key]
        rc, o, e, dt = run(["nm", "--defined-only", "-g", obj], timeout=60)
        for line in o.splitlines():
            parts = line.split()
            if len(parts) == 3 and parts[1] == "T":
                if parts[2] in seen and seen[parts[2]] != tu and parts[2] != "main":
                    dups.append("%s (in %s and %s)" % (parts[2], os.path.basename(seen[parts[2]]), os.path.basename(tu)))
                seen[parts[2]] = tu
    shutil.rmtree(wd, ignore_errors=True)
    _dup_cache[key] = dups
    return dups


def run_case(ctx, h, case, root):
    """one solver query (all properties of one harness/case).  Returns dict."""
    cname = "%s-%s" % (h["name"], case["name"])
    wd = os.path.join(ctx.scratch, "c_" + cname)
    os.makedirs(wd, exist_ok=True)
    res = {"harness": h["name"], "case": case["name"], "defs": case.get("defs", {}),
           "status": "error", "props": [], "detail": "", "unwindset": {}}
    defs = dict(h.get("defs", {}))
    defs.update(case.get("defs", {}))
    if h.get("malloc_may_fail"):
        defs["VF_FAULT_ALLOC"] = None
    src = os.path.join(root, "vf_harness", h["src"])
    units = [os.path.join(root, u) for u in h.get("units", [])]
    t_all = time.time()

    if units:
        dups = duplicate_definitions(ctx, h, case, root, defs)
        if dups:
            res["detail"] = "duplicate definitions across translation units: %s" % dups[:6]
            return res
    left = asm_left(root, src, defs, units) if h.get("asm_check", True) else []
    if left:
        res["detail"] = "not encodable: inline assembly left after asm2c: %s" % left[:3]
        return res

    gb = os.path.join(wd, "h.gb")
    cmd = ["goto-cc", "-DMATRIXSSL_VERIF", "-DVF_CBMC"] + def_flags(defs) + inc_flags(root) + \
        h.get("cflags", []) + [src] + units + ["-o", gb]
    rc, o, e, dt = run(cmd, timeout=600)
    if rc != 0:
        res["detail"] = "goto-cc failed: " + (e or o)[-3000:]
        return res
    res["compile_s"] = round(dt, 2)

    # closed world: functions without body among those reachable from main
    gb1 = os.path.join(wd, "h1.gb")
    rc, o, e, dt = run(["goto-instrument", "--no-malloc-may-fail", "--add-library", gb, gb1], timeout=600)
    if rc != 0:
        res["detail"] = "goto-instrument --add-library failed: " + (e or o)[-2000:]
        return res
    gb3 = os.path.join(wd, "h3.gb")
    rc, o, e, dt = run(["goto-instrument", "--drop-unused-functions", gb1, gb3], timeout=600)
    if rc != 0:
        res["detail"] = "goto-instrument failed: " + (e or o)[-2000:]
        return res
    rc, o, e, dt = run(["goto-instrument", "--reachable-call-graph", gb3], timeout=600)
    reach = set()
    for line in o.splitlines():
        if " -> " in line:
            a_, b_ = line.split(" -> ", 1)
            reach.add(a_.strip())
            reach.add(b_.strip())
    res["reachable_functions"] = len(reach)
    rc, o, e, dt = run(["goto-instrument", "--list-undefined-functions", gb3], timeout=600)
    undef = set()
    for line in o.splitlines():
        line = line.strip()
        if line and " " not in line:
            undef.add(line)
    undef &= reach
    allowed = UNDEF_WHITELIST | set(h.get("undefined_ok", []) if h.get("undefined_ok") != "*" else [])
    bad = sorted(u for u in undef if u not in allowed and not u.startswith(("__CPROVER", "__builtin", "nondet_")))
    if h.get("undefined_ok") == "*":
        # the harness cuts the unit short (stated in its assumptions): callees
        # behind the cut have no body; CBMC asserts "no body for callee" at
        # every call of such a function, so reaching one is still reported
        bad = []
    res["undefined"] = sorted(undef)
    if bad:
        res["detail"] = "closed-world check: reachable functions without body: %s" % bad
        return res

    uw_spec = dict(h.get("unwindset", {}))
    uw_spec.update(case.get("unwindset", {}))
    uw, uw_notes = resolve_unwindset(gb3, uw_spec)
    res["unwindset"] = uw
    if uw_notes:
        res["unwind_notes"] = uw_notes
    cmd = ["cbmc", gb3, "--json-ui", "--trace",
           "--unwinding-assertions", "--no-standard-checks", "--drop-unused-functions"]
    checks = case.get("checks", h.get("checks", DEFAULT_CHECKS))
    cmd += checks
    # allocation faults are drawn from the tape (vf.h, VF_FAULT_ALLOC), never
    # from CBMC's own nondeterministic malloc: they must replay natively
    cmd += ["--no-malloc-may-fail"]
    if uw:
        cmd += ["--unwindset", ",".join("%s:%d" % (k, v) for k, v in uw.items())]
    if "unwind" in case or "unwind" in h:
        cmd += ["--unwind", str(case.get("unwind", h.get("unwind")))]
    cmd += h.get("cbmc_flags", []) + case.get("cbmc_flags", [])
    cap = int(os.environ.get("VF_CAP", 0)) or case.get("cap_s", h.get("cap_s", 1200 if ctx.tier == "quick" else 7200))
    mem = case.get("mem_gb", h.get("mem_gb", 12))
    outp = os.path.join(wd, "out.json")
    rc, o, e, dt = run(cmd, timeout=cap, mem_gb=mem, stdout_path=outp)
    res["solver_s"] = round(dt, 2)
    res["cmd"] = " ".join(cmd).replace(ctx.scratch, "$SCRATCH")
    if rc == -999:
        res["status"] = "undecided"
        res["detail"] = "time cap %ds hit" % cap
        return res
    try:
        with open(outp) as f:
            msgs = json.load(f)
    except Exception as ex:  # out of memory typically truncates the JSON
        res["status"] = "undecided"
        res["detail"] = "cbmc output unreadable (rc=%s, likely memory cap %dGB): %s | %s" % (rc, mem, ex, e[-300:])
        return res
    results = None
    stats = {}
    errors = []
    for m in msgs:
        if "result" in m:
            results = m["result"]
        elif "messageText" in m:
            t = m["messageText"]
            mm = re.match(r"(\d+) variables, (\d+) clauses", t)
            if mm:
                stats["variables"] = max(stats.get("variables", 0), int(mm.group(1)))
                stats["clauses"] = max(stats.get("clauses", 0), int(mm.group(2)))
            mm = re.match(r"size of program expression: (\d+) steps", t)
            if mm:
                stats["steps"] = int(mm.group(1))
            if m.get("messageType") == "ERROR":
                errors.append(t)
    res["stats"] = stats
    if results is None:
        res["status"] = "undecided" if rc in (-9, 137, -6, 134) or "alloc" in (e + " ".join(errors)).lower() else "error"
        res["detail"] = "no result from cbmc (rc=%s): %s %s" % (rc, " | ".join(errors)[-1500:], e[-500:])
        return res
    res["status"] = "done"
    for r in results:
        desc = r.get("description", "")
        pname = r.get("property", "")
        st = r.get("status")
        kind = "builtin"
        if desc.startswith("VF_REACH:"):
            kind = "reach"
        elif desc.startswith("VF:"):
            kind = "assert"
        elif ".unwind." in pname or "unwinding assertion" in desc:
            kind = "unwind"
        elif "recursion unwinding" in desc:
            kind = "unwind"
        ent = {"property": pname, "description": desc, "status": st, "kind": kind}
        sl = r.get("sourceLocation") or {}
        if sl:
            ent["where"] = "%s:%s %s" % (os.path.basename(sl.get("file", "?")), sl.get("line", "?"), sl.get("function", ""))
        if st == "FAILURE" and kind != "reach" and "trace" in r:
            tape = bytearray()
            for s in r["trace"]:
                if s.get("stepType") == "assignment" and str(s.get("lhs", "")).startswith("vf_rec"):
                    fn = (s.get("sourceLocation") or {}).get("function", "")
                    if not fn.startswith("vf_u"):
                        continue
                    v = s.get("value", {})
                    b = v.get("binary")
                    if b is None:
                        continue
                    n = len(b) // 8
                    tape += int(b, 2).to_bytes(n, "little")
            ent["tape"] = bytes(tape)
            # where CBMC saw the failure (last step location)
            for s in reversed(r["trace"]):
                if s.get("stepType") == "failure":
                    l2 = s.get("sourceLocation") or {}
                    ent["fail_at"] = "%s:%s" % (os.path.basename(l2.get("file", "?")), l2.get("line", "?"))
                    break
        res["props"].append(ent)
    res["wall_s"] = round(time.time() - t_all, 2)
    if not ctx.keep:
        for fn in ("h.gb", "h1.gb", "h3.gb", "out.json"):
            try:
                os.unlink(os.path.join(wd, fn))
            except OSError:
                pass
    return res


def native_replay(ctx, h, case, root, tape, tag):
    """compile the same harness natively (ASan+UBSan) and run it on the tape"""
    cname = "%s-%s" % (h["name"], case["name"])
    wd = os.path.join(ctx.scratch, "c_" + cname)
    os.makedirs(wd, exist_ok=True)
    exe = os.path.join(wd, "native")
    defs = dict(h.get("defs", {}))
    defs.update(case.get("defs", {}))
    if h.get("malloc_may_fail"):
        defs["VF_FAULT_ALLOC"] = None
    src = os.path.join(root, "vf_harness", h["src"])
    units = [os.path.join(root, u) for u in h.get("units", []) + h.get("native_units", [])]
    if not os.path.exists(exe):
        base = ["gcc", "-O1", "-g", "-w", "-fsanitize=address,undefined", "-fno-sanitize=shift-base,signed-integer-overflow", "-fno-sanitize-recover=undefined",
                "-DMATRIXSSL_VERIF", "-DVF_NATIVE"] + def_flags(defs) + inc_flags(root) + h.get("cflags", [])
        stubs = os.path.join(wd, "undef_stubs.c")
        missing = set()
        for attempt in range(4):
            with open(stubs, "w") as f:
                f.write("/* callees that are unreachable in this harness (not linked); trap if ever called */\n")
                for sym in sorted(missing):
                    f.write("void %s(void) { __builtin_trap(); }\n" % sym)
            cmd = base + [src] + units + [stubs, "-o", exe] + h.get("native_libs", [])
            rc, o, e, dt = run(cmd, timeout=600)
            if rc == 0:
                break
            new = set(re.findall(r"undefined reference to `([A-Za-z_][A-Za-z0-9_]*)'", e))
            if not new - missing:
                return {"built": False, "detail": e[-3000:]}
            missing |= new
        if rc != 0:
            return {"built": False, "detail": e[-3000:]}
    tp = os.path.join(wd, "tape_%s.bin" % tag)
    with open(tp, "wb") as f:
        f.write(tape)
    env_cmd = ["env", "ASAN_OPTIONS=detect_leaks=%d:abort_on_error=0" % (1 if h.get("leak_check") else 0),
               "UBSAN_OPTIONS=print_stacktrace=1", exe, tp]
    rc, o, e, dt = run(env_cmd, timeout=int(h.get("native_timeout_s", 120)))
    labels = re.findall(r"VF_ASSERT_FAILED (\S+)", o)
    san = bool(re.search(r"ERROR: AddressSanitizer|runtime error:|ERROR: LeakSanitizer", e))
    return {"built": True, "rc": rc, "labels": labels, "sanitizer": san, "timeout": rc == -999,
            "assume_failed": "VF_ASSUME_FAILED" in o, "stdout": o[-1500:], "stderr": e[-2500:]}


def match_known(known, prop, hname, cname, label):
    for k in known:
        if k.get("status") != "known":
            continue
        if k.get("property") != prop or k.get("harness") != hname:
            continue
        if k.get("label") != label:
            continue
        if k.get("case") and not re.search(k["case"], cname):
            continue
        return k
    return None


def main():
    ap = argparse.ArgumentParser()
    ap.add_argument("prop")
    ap.add_argument("--tier", default=os.environ.get("VERIF_TIER", "quick"))
    ap.add_argument("--only", default=None)
    ap.add_argument("--replay", default=None)
    ap.add_argument("--keep", action="store_true")
    ap.add_argument("--jobs", type=int, default=int(os.environ.get("VF_JOBS", "16")))
    ap.add_argument("--no-evidence", action="store_true")
    a = ap.parse_args()
    prop = a.prop
    tier = a.tier if a.tier in ("quick", "thorough") else "quick"
    seed = int(os.environ.get("VERIF_SEED", "0") or 0)
    t0 = time.time()
    spec = load_spec(prop)
    known = load_known()
    scratch = tempfile.mkdtemp(prefix="vf_%s_" % prop, dir=os.environ.get("VF_TMP", "/tmp"))
    ctx = Ctx(prop, tier, scratch, a.keep)
    exit_code = 0
    lines = []
    try:
        harnesses = []
        for h in spec["HARNESSES"]:
            ht = h.get("tier", "quick")
            cases = [c for c in h["cases"] if c.get("tier", ht) == "quick" or tier == "thorough"]
            if a.only:
                on = a.only.split(":")
                if h["name"] != on[0]:
                    continue
                if len(on) > 1:
                    cases = [c for c in h["cases"] if re.fullmatch(on[1], c["name"])]
            if cases:
                harnesses.append((h, cases))
        if a.replay:
            return replay_mode(ctx, harnesses, a.replay)
        # derive trees (sequential, fast) then run all cases in a pool
        roots = {}
        dlogs = {}
        for h, cases in harnesses:
            roots[h["name"]], dlogs[h["name"]] = prepare_harness(ctx, h)
        jobs = []
        with cf.ThreadPoolExecutor(max_workers=a.jobs) as ex:
            for h, cases in harnesses:
                for c in cases:
                    jobs.append((h, c, ex.submit(run_case, ctx, h, c, roots[h["name"]])))
            results = [(h, c, f.result()) for h, c, f in jobs]

        obligations = discharged = 0
        evaluations = 0
        nontrivial = 0
        violations = 0
        known_hits = []
        samples = []
        per_case = []
        machinery = []
        ub_notes = []
        undecided = []
        solver_s = 0.0
        for h, c, r in results:
            evaluations += 1
            cname = "%s-%s" % (h["name"], c["name"])
            solver_s += r.get("solver_s", 0)
            pc = {"harness": h["name"], "case": c["name"], "defs": r.get("defs"), "status": r["status"],
                  "solver_s": r.get("solver_s"), "stats": r.get("stats"), "unwindset": r.get("unwindset"),
                  "cbmc": r.get("cmd")}
            if r["status"] == "undecided":
                undecided.append("%s: %s" % (cname, r["detail"]))
                pc["detail"] = r["detail"]
                per_case.append(pc)
                continue
            if r["status"] != "done":
                machinery.append("%s: %s" % (cname, r["detail"]))
                pc["detail"] = r["detail"]
                per_case.append(pc)
                continue
            n_assert = n_ok = n_unreached = n_error = 0
            reach_total = reach_hit = 0
            case_fail = []
            for p in r["props"]:
                if p["kind"] == "reach":
                    reach_total += 1
                    if p["status"] == "FAILURE":
                        reach_hit += 1
                    elif p["status"] == "ERROR":
                        n_error += 1
                    else:
                        machinery.append("%s: vacuous - witness %s not reachable" % (cname, p["description"]))
                    continue
                if p["status"] == "ERROR":
                    # the solver gave up on this property (out of memory ...)
                    n_error += 1
                    continue
                if p["status"] not in ("SUCCESS", "FAILURE"):
                    # never reached by symbolic execution (status UNKNOWN):
                    # neither an obligation nor a discharge
                    n_unreached += 1
                    continue
                obligations += 1
                n_assert += 1
                if p["status"] == "SUCCESS":
                    discharged += 1
                    n_ok += 1
                    continue
                if p["kind"] == "unwind":
                    # loops whose bound is *derived from the code* as the
                    # termination argument (spec: termination_loops): a run
                    # that exceeds it is a candidate hang, confirmed natively
                    if any(re.search(rx, p["property"]) for rx in h.get("termination_loops", [])) and p.get("tape") is not None:
                        p["term"] = True
                        case_fail.append(p)
                        continue
                    machinery.append("%s: unwinding bound too small: %s %s" % (cname, p["property"], p.get("where", "")))
                    continue
                case_fail.append(p)
            if n_error:
                undecided.append("%s: solver error (out of memory) on %d properties" % (cname, n_error))
            if reach_total and reach_hit == reach_total:
                nontrivial += 1
            if reach_total == 0:
                machinery.append("%s: harness has no reachability witness" % cname)
            pc.update({"obligations": n_assert, "discharged": n_ok, "witnesses_reached": "%d/%d" % (reach_hit, reach_total),
                       "unreached_properties": n_unreached})
            # triage failures: replay natively
            seen_labels = set()
            for p in case_fail:
                label = p["description"][3:] if p["kind"] == "assert" else p["property"]
                if p.get("term"):
                    label = "termination." + re.sub(r"\.unwind\.\d+$", "", p["property"])
                key = (label if p["kind"] == "assert" else re.sub(r"\.\d+$", "", label))
                tape = p.get("tape", b"")
                tag = re.sub(r"[^A-Za-z0-9_.-]", "_", label)[:60]
                rp = native_replay(ctx, h, c, roots[h["name"]], tape, tag)
                confirmed = False
                if rp.get("built"):
                    # a sanitizer report on the replay tape is a real fault
                    # of the code under test even when it pre-empts the label
                    if p.get("term"):
                        # the native run on the same input does not return
                        confirmed = bool(rp.get("timeout"))
                    elif p["kind"] == "assert":
                        confirmed = (label in rp["labels"]) or rp["sanitizer"]
                    else:
                        confirmed = rp["sanitizer"]
                k = match_known(known, prop, h["name"], c["name"], label) if p["kind"] == "assert" else \
                    match_known(known, prop, h["name"], c["name"], key)
                if confirmed:
                    rdir = os.path.join(VERIF, "replays", prop)
                    os.makedirs(rdir, exist_ok=True)
                    rpath = os.path.join(rdir, "%s-%s.tape" % (cname, tag))
                    with open(rpath, "wb") as f:
                        f.write(tape)
                    if k:
                        if (k["what"], cname) not in [(x[0], x[1]) for x in known_hits]:
                            known_hits.append((k["what"], cname, label))
                        if k["what"] not in seen_labels:
                            seen_labels.add(k["what"])
                    else:
                        violations += 1
                        lines.append("VIOLATION property=%s replay=%s" % (prop, rpath))
                        lines.append("  harness=%s case=%s label=%s at=%s" % (h["name"], c["name"], label, p.get("fail_at", p.get("where", "?"))))
                else:
                    why = "native build failed: " + rp.get("detail", "")[-600:] if not rp.get("built") else \
                        ("assumption left on replay" if rp.get("assume_failed") else
                         "native run did not reproduce (labels=%s sanitizer=%s rc=%s)" % (rp.get("labels"), rp.get("sanitizer"), rp.get("rc")))
                    if k and k.get("unit_level_unreplayable"):
                        known_hits.append((k["what"], cname, label))
                    elif p["kind"] == "builtin" and rp.get("built") and not rp.get("assume_failed") and \
                            any(re.search(rx, "%s %s %s" % (p["property"], p["description"], p.get("where", "")))
                                for rx in h.get("tolerate_unconfirmed", [])):
                        # a CBMC modelling artefact the spec documents (with
                        # its reason); it did not reproduce natively
                        ub_notes.append("%s: tolerated model artefact %s at %s" % (cname, p["description"], p.get("where", "?")))
                    elif p["kind"] == "builtin" and rp.get("built") and not rp.get("assume_failed") and \
                            p["description"].startswith(("pointer relation:", "pointer arithmetic:")):
                        # forming / comparing an out-of-bounds pointer without
                        # dereferencing it: standard-level UB that no sanitizer
                        # confirms - reported separately, never as a violation
                        ub_notes.append("%s: %s at %s" % (cname, p["description"], p.get("where", "?")))
                    else:
                        machinery.append("%s: UNCONFIRMED counterexample for %s (%s): %s" % (cname, label, p.get("fail_at", p.get("where", "")), why))
            pc["failed"] = [(p["description"] or p["property"]) for p in case_fail]
            per_case.append(pc)
            if len(samples) < 12:
                oks = [p for p in r["props"] if p["status"] == "SUCCESS" and p["kind"] == "assert"][:2]
                for p in oks:
                    samples.append({"harness": h["name"], "case": c["name"], "defs": r.get("defs"),
                                    "obligation": p["description"], "verdict": "holds for all inputs within bounds"})

        printed = set()
        for what, cname, label in known_hits:
            if what not in printed:
                printed.add(what)
                lines.append("KNOWN-FINDING: property=%s %s" % (prop, what))
        if violations:
            exit_code = 1
        elif machinery:
            exit_code = 2
        elif undecided:
            exit_code = 3
        for m in machinery:
            lines.append("MACHINERY: " + m)
        for u in sorted(set(ub_notes))[:20]:
            lines.append("NOTE unconfirmable pointer-formation UB (not a violation): " + u)
        for u in undecided:
            lines.append("INCONCLUSIVE property=%s %s" % (prop, u))
        wall = time.time() - t0
        if not a.no_evidence and not a.only:
            meta = spec.get("PROPERTY", {})
            functions = sorted({f for h, _ in harnesses for f in h.get("functions", [])})
            ev = {
                "property_id": prop, "tier": tier, "seed": seed,
                "level": meta.get("level", "model_checking"),
                "coverage": {
                    "evaluations": evaluations,
                    "distinct_nontrivial": nontrivial,
                    "rule": "one evaluation = one CBMC query (harness x enumerated -D case) deciding all assertions of that "
                            "case for every value of the symbolic inputs; a case is non-trivial iff every reachability "
                            "witness (VF_REACH) of the harness was shown reachable by the solver in that query",
                    "obligations": obligations, "discharged": discharged,
                    "samples": samples or [{"note": "no discharged sample"}],
                    "explanation": meta.get("explanation", ""),
                    "functions_encoded": functions,
                    "bounds": meta.get("bounds", ""),
                    "outside_bounds": meta.get("outside", ""),
                    "solver_seconds_total": round(solver_s, 1),
                    "checker_cmd": "cbmc 6.11.0 (--unwinding-assertions, per-loop --unwindset), built through goto-cc from /repo's working tree",
                    "cases": per_case,
                    "derivation": {k: v for k, v in dlogs.items()},
                    "source_sha256": {f: vderive.sha256_file(os.path.join(REPO, f)) for f in sorted({u for h, _ in harnesses for u in h.get("sources", [])}) if os.path.exists(os.path.join(REPO, f))},
                    "known_findings_matched": sorted(printed),
                    "undecided": undecided, "machinery_failures": machinery,
                    "unconfirmable_pointer_ub_notes": sorted(set(ub_notes)),
                },
                "assumptions": meta.get("assumptions", []) + sorted({s for h, _ in harnesses for s in h.get("assumptions", [])}),
                "wall_s": round(wall, 1),
                "violations": violations,
            }
            os.makedirs(os.path.join(VERIF, "evidence"), exist_ok=True)
            with open(os.path.join(VERIF, "evidence", prop + ".json"), "w") as f:
                json.dump(ev, f, indent=1, default=str)
        print("%s tier=%s cases=%d nontrivial=%d obligations=%d discharged=%d violations=%d known=%d wall=%.0fs solver=%.0fs" % (
            prop, tier, evaluations, nontrivial, obligations, discharged, violations, len(printed), wall, solver_s))
        for ln in lines:
            print(ln)
        if os.environ.get("VF_VERBOSE"):
            for pc in per_case:
                print("  case %-40s %-9s solver=%ss obl=%s ok=%s reach=%s failed=%s" % (
                    pc["harness"] + "-" + pc["case"], pc["status"], pc.get("solver_s"), pc.get("obligations"),
                    pc.get("discharged"), pc.get("witnesses_reached"), pc.get("failed")))
    finally:
        if not a.keep:
            shutil.rmtree(scratch, ignore_errors=True)
        else:
            print("scratch kept at", scratch)
    sys.exit(exit_code)


def replay_mode(ctx, harnesses, tape_path):
    """tape file names are <harness>-<case>-<label>.tape"""
    base = os.path.basename(tape_path)
    with open(tape_path, "rb") as f:
        tape = f.read()
    for h, cases in harnesses:
        for c in cases:
            if base.startswith("%s-%s-" % (h["name"], c["name"])):
                root, _ = prepare_harness(ctx, h)
                rp = native_replay(ctx, h, c, root, tape, "replay")
                print(json.dumps({k: v for k, v in rp.items()}, indent=1))
                shutil.rmtree(ctx.scratch, ignore_errors=True)
                sys.exit(1 if (rp.get("labels") or rp.get("sanitizer")) else 0)
    print("no harness/case matches", base)
    shutil.rmtree(ctx.scratch, ignore_errors=True)
    sys.exit(2)


if __name__ == "__main__":
    main()
