"""derive.py - build the derived source tree for one check run.

Copies core/, crypto/, matrixssl/ (*.c, *.h) from the repo's *working tree*
to a scratch directory and applies only mechanical, logged transformations:

  1. definition renaming (stub points): `T name(args) {` -> `name__real`
  2. front-end fidelity rewrites (mode(TI) typedef)
  3. asm2c: inline assembly -> C (crypto/cryptolib.h rotates, pstm kernels)

See DESIGN.md section 2.2.
"""
import hashlib
import os
import re
import shutil

SUBDIRS = ("core", "crypto", "matrixssl")


def sha256_file(path):
    h = hashlib.sha256()
    with open(path, "rb") as f:
        h.update(f.read())
    return h.hexdigest()


def copy_tree(repo, dst):
    """copy *.c/*.h of the three libraries; fill in default config if absent"""
    n = 0
    for sub in SUBDIRS:
        for root, dirs, files in os.walk(os.path.join(repo, sub)):
            dirs[:] = [d for d in dirs if d not in (".git",)]
            rel = os.path.relpath(root, repo)
            for fn in files:
                if fn.endswith((".c", ".h", ".inc", ".def")):
                    os.makedirs(os.path.join(dst, rel), exist_ok=True)
                    shutil.copy2(os.path.join(root, fn), os.path.join(dst, rel, fn))
                    n += 1
    # the build's "check-config" step
    for tgt, src in (("crypto/cryptoConfig.h", "configs/default/cryptoConfig.h"),
                     ("matrixssl/matrixsslConfig.h", "configs/default/matrixsslConfig.h"),
                     ("core/config/coreConfig.h", "configs/default/coreConfig.h")):
        if not os.path.exists(os.path.join(dst, tgt)):
            shutil.copy2(os.path.join(repo, src), os.path.join(dst, tgt))
    return n


# ---------------------------------------------------------------------------
# C-aware scanning helpers

def _strip_map(text):
    """return a same-length copy of text where comments, string and char
    literals are replaced by spaces (newlines kept), for structural scans"""
    out = list(text)
    i, n = 0, len(text)
    while i < n:
        c = text[i]
        if c == '/' and i + 1 < n and text[i + 1] == '*':
            j = text.find('*/', i + 2)
            j = n if j < 0 else j + 2
            for k in range(i, j):
                if out[k] != '\n':
                    out[k] = ' '
            i = j
        elif c == '/' and i + 1 < n and text[i + 1] == '/':
            j = text.find('\n', i)
            j = n if j < 0 else j
            for k in range(i, j):
                out[k] = ' '
            i = j
        elif c == '"' or c == "'":
            q = c
            j = i + 1
            while j < n and text[j] != q:
                if text[j] == '\\':
                    j += 1
                j += 1
            for k in range(i + 1, min(j, n)):
                if out[k] != '\n':
                    out[k] = ' '
            i = j + 1
        else:
            i += 1
    return ''.join(out)


def _match_paren(s, i):
    """s[i] == '(' ; return index of matching ')' or -1"""
    depth = 0
    n = len(s)
    while i < n:
        if s[i] == '(':
            depth += 1
        elif s[i] == ')':
            depth -= 1
            if depth == 0:
                return i
        i += 1
    return -1


def find_definitions(text, name):
    """offsets of identifier `name` where it is the declarator of a function
    *definition*: name ( balanced ) [whitespace/preprocessor-free] {"""
    s = _strip_map(text)
    res = []
    for m in re.finditer(r'\b' + re.escape(name) + r'\b', s):
        j = m.end()
        while j < len(s) and s[j] in ' \t\n':
            j += 1
        if j >= len(s) or s[j] != '(':
            continue
        k = _match_paren(s, j)
        if k < 0:
            continue
        k += 1
        while k < len(s) and s[k] in ' \t\n':
            k += 1
        if k < len(s) and s[k] == '{':
            # exclude calls used as statements followed by a block?  a call is
            # followed by ';' or an operator, never directly by '{'; control
            # keywords (if/while/for/switch) are not identifiers we rename.
            res.append(m.start())
    return res


def rename_definitions(path, names, log):
    with open(path, encoding="utf-8", errors="surrogateescape") as f:
        text = f.read()
    edits = []
    for name in names:
        offs = find_definitions(text, name)
        if not offs:
            raise RuntimeError("derive: no definition of %s in %s" % (name, path))
        for o in offs:
            edits.append((o, name))
        log.append({"file": os.path.basename(path), "renamed": name,
                    "definitions": len(offs)})
    for o, name in sorted(edits, reverse=True):
        text = text[:o] + name + "__real" + text[o + len(name):]
    with open(path, "w", encoding="utf-8", errors="surrogateescape") as f:
        f.write(text)


# ---------------------------------------------------------------------------

def fidelity_rewrites(dst, log):
    """CBMC 6.11 ignores __attribute__((mode(TI))) -> rewrite to unsigned __int128"""
    p = os.path.join(dst, "crypto/math/pstm.h")
    if not os.path.exists(p):
        return
    with open(p) as f:
        t = f.read()
    pat = re.compile(r'typedef\s+unsigned\s+long\s+pstm_word\s+__attribute__\s*\(\(mode\(TI\)\)\)\s*;')
    t2, n = pat.subn('typedef unsigned __int128 pstm_word; /* vf: was mode(TI) */', t)
    if n:
        with open(p, "w") as f:
            f.write(t2)
        log.append({"file": "crypto/math/pstm.h", "rewrite": "pstm_word mode(TI) -> unsigned __int128", "count": n})


def guard_shared(path, guards, log):
    """C20 lock-discipline instrumentation: every textual use of a shared
    object `obj` (outside its own declaration) becomes VF_GUARD(obj, lock),
    a macro the harness defines as (*(vf_touch(&(lock)), &(obj)))"""
    with open(path, encoding="utf-8", errors="surrogateescape") as f:
        text = f.read()
    stripped = _strip_map(text)
    edits = []
    for obj, lock in guards.items():
        if obj.startswith("->"):
            # member of a shared structure: guard the whole access path
            # X->member (X = identifier followed by ->field / [index] / .field)
            pat = re.compile(r'[A-Za-z_]\w*(?:(?:->|\.)\w+|\[[^\]\n]*\])*->' + re.escape(obj[2:]) + r'\b')
            n = 0
            for m in pat.finditer(stripped):
                ls = stripped.rfind('\n', 0, m.start()) + 1
                line = stripped[ls:stripped.find('\n', m.start())]
                if line.lstrip().startswith('#'):
                    continue
                edits.append((m.start(), text[m.start():m.end()], lock))
                n += 1
            log.append({"file": os.path.basename(path), "guarded": obj, "lock": lock, "uses": n})
            continue
        for m in re.finditer(r'\b' + re.escape(obj) + r'\b', stripped):
            ls = stripped.rfind('\n', 0, m.start()) + 1
            line = stripped[ls:stripped.find('\n', m.start())]
            if re.match(r'\s*(static|extern)\b', line):
                continue  # the declaration itself
            if line.lstrip().startswith('#'):
                continue
            edits.append((m.start(), obj, lock))
        log.append({"file": os.path.basename(path), "guarded": obj, "lock": lock,
                    "uses": sum(1 for e in edits if e[1] == obj)})
    for o, obj, lock in sorted(edits, reverse=True):
        text = text[:o] + "VF_GUARD(%s, %s)" % (obj, lock) + text[o + len(obj):]
    with open(path, "w", encoding="utf-8", errors="surrogateescape") as f:
        f.write(text)


def derive(repo, dst, renames, log, asm=True, guards=None):
    """renames: {relative path: [function names]}; guards: {path: {obj: lock}}"""
    n = copy_tree(repo, dst)
    log.append({"copied_files": n})
    fidelity_rewrites(dst, log)
    for rel, names in (renames or {}).items():
        rename_definitions(os.path.join(dst, rel), names, log)
    for rel, g in (guards or {}).items():
        guard_shared(os.path.join(dst, rel), g, log)
    if asm:
        from . import asm2c
        asm2c.translate_tree(dst, log)
