"""asm2c.py - translate the x86-64 GCC inline assembly statements of the
shipped configuration into straight-line C, because CBMC silently drops
inline assembly it does not model.  DESIGN.md section 2.3.

Supported subset: movq, mulq, addq, adcq, xorq, setb, movzbq (64-bit) and
roll/rorl %cl (32-bit).  Operand forms: %N, %%reg (rax, rdx, r10, r11, al, cl),
$imm, disp(%N).  Constraints: =r =g +r r g m c and matching digits.

An asm statement that contains any other mnemonic is left untouched (it belongs
to another architecture's #if branch); the driver's closed-world check rejects
a harness whose *preprocessed* text still contains an asm statement.
"""
import os
import re

SUPPORTED = {"movq", "mulq", "addq", "adcq", "xorq", "setb", "movzbq", "roll", "rorl"}

ASM_RE = re.compile(r'(?<![A-Za-z0-9_])(__asm__|__asm|asm)\b\s*(?:volatile\s*|__volatile__\s*)?\(')

HEADER = r'''
#ifndef VF_ASM2C_H
#define VF_ASM2C_H
#include <stdint.h>
#if defined(VF_MUL_UF) && defined(VF_CBMC)
/* symbolic x symbolic 64x64 products as uninterpreted functions (symmetric).
   The only facts assumed about the product are true of the real one:
   a*b <= (2^64-1)^2, i.e. hi <= 2^64-2 and (hi == 2^64-2 => lo <= 1) */
uint64_t __CPROVER_uninterpreted_mullo(uint64_t, uint64_t);
uint64_t __CPROVER_uninterpreted_mulhi(uint64_t, uint64_t);
# define VF_MUL64(a, b, lo, hi) do { uint64_t vf_ma = (a), vf_mb = (b); \
    uint64_t vf_mx = vf_ma <= vf_mb ? vf_ma : vf_mb, vf_my = vf_ma <= vf_mb ? vf_mb : vf_ma; \
    uint64_t vf_ml = __CPROVER_uninterpreted_mullo(vf_mx, vf_my); \
    uint64_t vf_mh = __CPROVER_uninterpreted_mulhi(vf_mx, vf_my); \
    __CPROVER_assume(vf_mh < 0xFFFFFFFFFFFFFFFEULL || (vf_mh == 0xFFFFFFFFFFFFFFFEULL && vf_ml <= 1)); \
    (lo) = vf_ml; (hi) = vf_mh; } while (0)
#else
# define VF_MUL64(a, b, lo, hi) do { unsigned __int128 vf_mt = \
    (unsigned __int128) (uint64_t) (a) * (uint64_t) (b); \
    (lo) = (uint64_t) vf_mt; (hi) = (uint64_t) (vf_mt >> 64); } while (0)
#endif
#define VF_ADD64(dst, src, cin) do { unsigned __int128 vf_at = \
    (unsigned __int128) (uint64_t) (dst) + (uint64_t) (src) + (cin); \
    (dst) = (__typeof__(dst)) (uint64_t) vf_at; vf_cf = (unsigned) (vf_at >> 64); } while (0)
#endif
'''


def _skip_string(s, i):
    q = s[i]
    j = i + 1
    while j < len(s) and s[j] != q:
        if s[j] == '\\':
            j += 1
        j += 1
    return j + 1


def _match_paren(s, i):
    depth = 0
    while i < len(s):
        c = s[i]
        if c in '"\'':
            i = _skip_string(s, i)
            continue
        if c == '(':
            depth += 1
        elif c == ')':
            depth -= 1
            if depth == 0:
                return i
        i += 1
    return -1


def _split_top(s, sep):
    parts, depth, cur, i = [], 0, [], 0
    while i < len(s):
        c = s[i]
        if c in '"\'':
            j = _skip_string(s, i)
            cur.append(s[i:j])
            i = j
            continue
        if c in '([':
            depth += 1
        elif c in ')]':
            depth -= 1
        if c == sep and depth == 0:
            parts.append(''.join(cur))
            cur = []
        else:
            cur.append(c)
        i += 1
    parts.append(''.join(cur))
    return parts


def _template(sec):
    out = []
    for m in re.finditer(r'"((?:[^"\\]|\\.)*)"', sec):
        out.append(m.group(1))
    t = ''.join(out)
    t = t.replace('\\n', '\n').replace('\\t', ' ')
    ins = []
    for line in re.split(r'[\n;]', t):
        line = line.strip()
        if line:
            ins.append(line)
    return ins


def _operands(sec):
    ops = []
    sec = sec.strip()
    if not sec:
        return ops
    for part in _split_top(sec, ','):
        part = part.strip()
        m = re.match(r'"([^"]*)"\s*\((.*)\)\s*$', part, re.S)
        if not m:
            raise ValueError("asm2c: cannot parse operand %r" % part)
        ops.append((m.group(1), m.group(2).strip()))
    return ops


class NotEncodable(Exception):
    pass


def _reg(name):
    return {"rax": "vf_rax", "rdx": "vf_rdx", "r10": "vf_r10", "r11": "vf_r11"}[name]


def _operand_expr(tok, nops, width=64):
    """returns (kind, C expression) for an AT&T operand token"""
    tok = tok.strip()
    m = re.match(r'^%(\d+)$', tok)
    if m:
        n = int(m.group(1))
        if n >= nops:
            raise NotEncodable("operand %s out of range" % tok)
        return "op", "vf_op%d" % n
    m = re.match(r'^%%(\w+)$', tok)
    if m:
        r = m.group(1)
        if r in ("rax", "rdx", "r10", "r11"):
            return "reg", _reg(r)
        raise NotEncodable("register %s" % r)
    m = re.match(r'^\$(-?(?:0x[0-9a-fA-F]+|\d+))$', tok)
    if m:
        return "imm", "((uint64_t) %sULL)" % m.group(1) if not m.group(1).startswith('-') else "((uint64_t) (%sLL))" % m.group(1)
    m = re.match(r'^(0x[0-9a-fA-F]+|\d+)?\(%(\d+)\)$', tok)
    if m:
        disp = m.group(1) or "0"
        n = int(m.group(2))
        if n >= nops:
            raise NotEncodable("operand %s out of range" % tok)
        return "mem", "(*(uint64_t *) ((unsigned char *) vf_op%d + %s))" % (n, disp)
    raise NotEncodable("operand form %r" % tok)


def translate_statement(content):
    """content: text inside asm( ... ).  Returns C text or raises NotEncodable"""
    content = content.replace('\\\n', '\n')
    secs = _split_top(content, ':')
    if len(secs) < 2:
        raise NotEncodable("basic asm")
    ins = _template(secs[0])
    for i in ins:
        if i.split()[0] not in SUPPORTED:
            raise NotEncodable("mnemonic " + i.split()[0])
    outs = _operands(secs[1])
    inps = _operands(secs[2]) if len(secs) > 2 else []
    nops = len(outs) + len(inps)
    c = []
    c.append("uint64_t vf_rax = 0, vf_rdx = 0, vf_r10 = 0, vf_r11 = 0, vf_rcx = 0; unsigned vf_cf = 0;")
    c.append("(void) vf_rax; (void) vf_rdx; (void) vf_r10; (void) vf_r11; (void) vf_rcx; (void) vf_cf;")
    # declare output operand variables (typed like their lvalues)
    for k, (cons, expr) in enumerate(outs):
        if not cons.startswith(('=', '+')):
            raise NotEncodable("output constraint " + cons)
        init = " = (%s)" % expr if cons.startswith('+') else ""
        c.append("__typeof__(%s) vf_op%d%s;" % (expr, k, init))
    # inputs: evaluated exactly once, in order
    for j, (cons, expr) in enumerate(inps):
        k = len(outs) + j
        c.append("__typeof__(%s) vf_op%d = (%s);" % (expr, k, expr))
        if cons.isdigit():
            t = int(cons)
            if t >= len(outs):
                raise NotEncodable("matching constraint")
            c.append("vf_op%d = vf_op%d;" % (t, k))
        elif cons == "c":
            c.append("vf_rcx = (uint64_t) vf_op%d;" % k)
        elif cons not in ("r", "g", "m", "rm", "ri"):
            raise NotEncodable("input constraint " + cons)
    for i in ins:
        parts = i.split(None, 1)
        mn = parts[0]
        args = [a.strip() for a in _split_top(parts[1], ',')] if len(parts) > 1 else []
        if mn == "movq":
            _, s = _operand_expr(args[0], nops)
            _, d = _operand_expr(args[1], nops)
            c.append("%s = (__typeof__(%s)) (uint64_t) (%s);" % (d, d, s))
        elif mn == "mulq":
            _, s = _operand_expr(args[0], nops)
            c.append("VF_MUL64(vf_rax, (uint64_t) (%s), vf_rax, vf_rdx);" % s)
        elif mn == "addq":
            _, s = _operand_expr(args[0], nops)
            _, d = _operand_expr(args[1], nops)
            c.append("VF_ADD64(%s, %s, 0u);" % (d, s))
        elif mn == "adcq":
            _, s = _operand_expr(args[0], nops)
            _, d = _operand_expr(args[1], nops)
            c.append("VF_ADD64(%s, %s, vf_cf);" % (d, s))
        elif mn == "xorq":
            _, s = _operand_expr(args[0], nops)
            _, d = _operand_expr(args[1], nops)
            c.append("%s = (__typeof__(%s)) ((uint64_t) (%s) ^ (uint64_t) (%s)); vf_cf = 0;" % (d, d, d, s))
        elif mn == "setb":
            if args[0] != "%%al":
                raise NotEncodable("setb " + args[0])
            c.append("vf_rax = (vf_rax & ~(uint64_t) 0xff) | (uint64_t) (vf_cf & 1u);")
        elif mn == "movzbq":
            if args[0] != "%%al":
                raise NotEncodable("movzbq " + args[0])
            _, d = _operand_expr(args[1], nops)
            c.append("%s = (__typeof__(%s)) (vf_rax & 0xff);" % (d, d))
        elif mn in ("roll", "rorl"):
            if args[0] != "%%cl":
                raise NotEncodable(mn + " " + args[0])
            _, d = _operand_expr(args[1], nops)
            sh = "(unsigned) (vf_rcx & 31)"
            if mn == "roll":
                c.append("{ uint32_t vf_w = (uint32_t) (%s); unsigned vf_s = %s; "
                         "%s = (__typeof__(%s)) (vf_s ? ((vf_w << vf_s) | (vf_w >> (32 - vf_s))) : vf_w); }" % (d, sh, d, d))
            else:
                c.append("{ uint32_t vf_w = (uint32_t) (%s); unsigned vf_s = %s; "
                         "%s = (__typeof__(%s)) (vf_s ? ((vf_w >> vf_s) | (vf_w << (32 - vf_s))) : vf_w); }" % (d, sh, d, d))
        else:
            raise NotEncodable(mn)
    for k, (cons, expr) in enumerate(outs):
        c.append("(%s) = vf_op%d;" % (expr, k))
    return "do { " + " ".join(c) + " } while (0)", ins


def translate_text(text, log, fname):
    out = []
    pos = 0
    n_done = 0
    for m in ASM_RE.finditer(text):
        if m.start() < pos:
            continue
        lp = m.end() - 1
        rp = _match_paren(text, lp)
        if rp < 0:
            continue
        content = text[lp + 1:rp]
        try:
            ctext, ins = translate_statement(content)
        except (NotEncodable, ValueError, KeyError, IndexError):
            continue
        # keep the replacement on the macro's logical line: if the statement
        # spans continued lines, the replacement is one line, and the line
        # count is preserved with continuation lines for readable diagnostics
        nl = text[m.start():rp + 1].count('\n')
        cont = text[m.start():rp + 1].count('\\\n')
        pad = ('\\\n' * nl) if cont == nl and nl > 0 else ('\n' * nl)
        out.append(text[pos:m.start()])
        out.append(ctext + (" " + pad if pad else ""))
        pos = rp + 1
        n_done += 1
        log.append({"file": fname, "asm2c": [i.split()[0] for i in ins]})
    out.append(text[pos:])
    return ''.join(out), n_done


FILES = ("crypto/cryptolib.h", "crypto/math/pstm_mul_comba.c",
         "crypto/math/pstm_sqr_comba.c", "crypto/math/pstm_montgomery_reduce.c")


def translate_tree(dst, log):
    hdr = os.path.join(dst, "vf_asm2c.h")
    with open(hdr, "w") as f:
        f.write(HEADER)
    for rel in FILES:
        p = os.path.join(dst, rel)
        if not os.path.exists(p):
            continue
        with open(p, encoding="utf-8", errors="surrogateescape") as f:
            text = f.read()
        new, n = translate_text(text, log, rel)
        if n:
            new = '#include "vf_asm2c.h"\n' + new
            with open(p, "w", encoding="utf-8", errors="surrogateescape") as f:
                f.write(new)
