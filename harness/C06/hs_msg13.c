/* hs_msg13.c - C06.d / C04 / C17: one TLS 1.3 handshake message through the
 * real tls13ParseHandshakeMessage (matrixssl/tls13Decode.c: header, state
 * gate, dispatch, next-state assignment) from an arbitrary session state.
 * The per-message parsers, key activation and transcript functions are
 * contract stubs (arbitrary verdict, logged).
 * Decided:
 *  - a message advances the state only if the gate accepted it AND its own
 *    parser / verifier ran exactly once and succeeded (nothing is skipped);
 *  - the next state is the successor RFC 8446 Appendix A prescribes;
 *  - a refused or failing message leaves hsState unchanged;
 *  - after a HelloRetryRequest the client is back at START with early data
 *    disabled (no second 0-RTT flight under the same early traffic key).
 */
#include "vf.h"
#if defined(VF_FRAG) && VF_FRAG == 2
# include "heap_model.h"
#endif
#include "matrixssl/matrixsslImpl.h"
#include "matrixssl/tls13Decode.c"
#include "ssl_state.h"
#include "trace_stubs.h"

static int g_calls[32], g_ok[32];
static int g_tr_reinit, g_tr_update, g_act_hs, g_act_app, g_cact_hs, g_hrr;
static sslKeys_t K;

static int32_t verdict(int type)
{
    g_calls[type]++;
    if (vf_bool())
    {
        g_ok[type]++;
        return PS_SUCCESS;
    }
    S.err = SSL_ALERT_DECODE_ERROR;
    return MATRIXSSL_ERROR;
}
int32_t tls13ParseClientHello(ssl_t *ssl, psParseBuf_t *pb, psBool_t handle)
{
    return verdict(SSL_HS_CLIENT_HELLO);
}
int32_t tlsServerNegotiateVersion(ssl_t *ssl)
{
    if (vf_bool())
    {
        ssl->activeVersion = v_tls_1_3 | v_tls_negotiated;
        return PS_SUCCESS;
    }
    return MATRIXSSL_ERROR;
}
int32_t tls13ParseServerHello(ssl_t *ssl, psParseBuf_t *pb)
{
    g_calls[SSL_HS_SERVER_HELLO]++;
    if (vf_bool())
    {
        /* HelloRetryRequest */
        g_hrr = 1;
        ssl->tls13IncorrectDheKeyShare = PS_TRUE;
        return SSL_ENCODE_RESPONSE;
    }
    if (vf_bool())
    {
        g_ok[SSL_HS_SERVER_HELLO]++;
        return PS_SUCCESS;
    }
    ssl->err = SSL_ALERT_ILLEGAL_PARAMETER;
    return MATRIXSSL_ERROR;
}
static int32_t tls13ClientActivateHsReadKeys(ssl_t *ssl)
{
    g_cact_hs++;
    return vf_bool() ? PS_SUCCESS : MATRIXSSL_ERROR;
}
int32_t tls13ParseEncryptedExtensions(ssl_t *ssl, psParseBuf_t *pb)
{
    return verdict(SSL_HS_ENCRYPTED_EXTENSION);
}
static psRes_t tls13ParseCertificateRequest(ssl_t *ssl, psParseBuf_t *pb)
{
    return verdict(SSL_HS_CERTIFICATE_REQUEST);
}
static int32_t tls13ParseCertificate(ssl_t *ssl, psParseBuf_t *pb)
{
    return verdict(SSL_HS_CERTIFICATE);
}
static int32_t tls13ParseCertificateVerify(ssl_t *ssl, psParseBuf_t *pb)
{
    return verdict(SSL_HS_CERTIFICATE_VERIFY);
}
static int32_t tls13ParseFinished(ssl_t *ssl, psParseBuf_t *pb)
{
    return verdict(SSL_HS_FINISHED);
}
static int32_t tls13ParseNewSessionTicket(ssl_t *ssl, psParseBuf_t *pb)
{
    return verdict(SSL_HS_NEW_SESSION_TICKET);
}
int32_t tls13ActivateHsReadKeys(ssl_t *ssl)
{
    g_act_hs++;
    return vf_bool() ? PS_SUCCESS : MATRIXSSL_ERROR;
}
int32_t tls13ActivateAppReadKeys(ssl_t *ssl)
{
    g_act_app++;
    return vf_bool() ? PS_SUCCESS : MATRIXSSL_ERROR;
}
int32_t tls13TranscriptHashInit(ssl_t *ssl)
{
    return 0;
}
int32_t tls13TranscriptHashReinit(ssl_t *ssl)
{
    g_tr_reinit++;
    return vf_bool() ? 0 : -1;
}
int32_t tls13TranscriptHashUpdate(ssl_t *ssl, const unsigned char *in, psSize_t len)
{
    g_tr_update++;
    return 0;
}
int32_t tls13TranscriptHashSnapshot(ssl_t *ssl, unsigned char *out)
{
    return vf_bool() ? 0 : -1;
}
int32_t tls13DeriveResumptionMasterSecret(ssl_t *ssl)
{
    return vf_bool() ? 0 : -1;
}
void tls13ClearHsState(ssl_t *ssl)
{
}

#define NB 12
static unsigned char M[NB];

static int successor(const ssl_t *pre, int type, int server, int psk, int tickets, int hrr)
{
    switch (type)
    {
    case SSL_HS_CLIENT_HELLO: return SSL_HS_TLS_1_3_RECVD_CH;
    case SSL_HS_SERVER_HELLO: return hrr ? SSL_HS_TLS_1_3_START : SSL_HS_TLS_1_3_WAIT_EE;
    case SSL_HS_ENCRYPTED_EXTENSION: return psk ? SSL_HS_TLS_1_3_WAIT_FINISHED : SSL_HS_TLS_1_3_WAIT_CERT_CR;
    case SSL_HS_CERTIFICATE_REQUEST: return SSL_HS_TLS_1_3_WAIT_CERT;
    case SSL_HS_CERTIFICATE: return SSL_HS_TLS_1_3_WAIT_CV;
    case SSL_HS_CERTIFICATE_VERIFY: return SSL_HS_TLS_1_3_WAIT_FINISHED;
    case SSL_HS_EOED: return SSL_HS_TLS_1_3_WAIT_FINISHED;
    case SSL_HS_FINISHED: return server ? (tickets ? SSL_HS_TLS_1_3_SEND_NST : SSL_HS_DONE) : SSL_HS_TLS_1_3_SEND_FINISHED;
    default: return pre->hsState;
    }
}

VF_MAIN
{
    ssl_t *ssl = &S;
    static ssl_t pre;
    unsigned char *p = M;
    int32_t rc;
    int type, server, psk, tickets;
    uint32 hl;

    VF_HAVOC(S, ssl_t);
    vf_ssl_scalars(ssl, 1);
    vf_ssl_pointers(ssl);
    ssl->activeVersion = v_tls_1_3 | v_tls_negotiated;
    memset(&K, 0, sizeof(K));
    K.sessTickets = vf_bool() ? (psSessionTicketKeys_t *) &K : NULL;
    ssl->keys = &K;
    ssl->fragMessage = NULL;
    ssl->fragTotal = ssl->fragIndex = 0;
    ssl->sec.tls13UsingPsk = vf_bool();
    ssl->sec.tls13BindersLen = vf_u8();
    ssl->tls13IncorrectDheKeyShare = PS_FALSE;
    ssl->tls13ClientEarlyDataEnabled = vf_bool();
    ssl->tls13EarlyDataStatus = vf_u8() % 4;
    vf_bytes(M, NB);
    hl = ((uint32) M[1] << 16) | ((uint32) M[2] << 8) | M[3];
#if defined(VF_FRAG) && VF_FRAG == 2
    {
        /* C18 / C08: a later piece of a handshake message that spans records.
           RI: fragMessage holds fragTotal bytes (header included), fragIndex of
           them (at least the header) are stored */
        uint32 tot = 5 + vf_u8() % 20, idx = vf_u8(), take;
        uint32 avail = vf_u8();
        VF_ASSUME(idx >= 4 && idx < tot && avail >= 1 && avail <= NB);
        ssl->fragTotal = tot;
        ssl->fragIndex = idx;
        ssl->fragMessage = (unsigned char *) malloc(tot);
        VF_ASSUME(ssl->fragMessage != NULL);
        vf_bytes(ssl->fragMessage, 4);
        /* the stored header announces the stored total */
        ssl->fragMessage[1] = 0;
        ssl->fragMessage[2] = 0;
        ssl->fragMessage[3] = (unsigned char) (tot - 4);
        pre = S;
        take = (avail < tot - idx) ? avail : tot - idx;
        rc = tls13ParseHandshakeMessage(ssl, &p, M + avail);
        VF_ASSERT(p == M + take, "c18.hs13.continuation_consumes_exactly_what_is_missing");
        if (take < tot - idx)
        {
            VF_REACH("still_partial");
            VF_ASSERT(rc == SSL_PARTIAL && ssl->fragIndex == idx + take && ssl->fragMessage != NULL, "c18.hs13.continuation_stored");
            VF_ASSERT(ssl->hsState == pre.hsState, "c06.hs13.partial_message_leaves_state");
        }
        else
        {
            VF_REACH("completed");
            /* the reassembly buffer is released once the message was handled */
            /* (SSL_NO_TLS_1_3 hands the reassembled ClientHello over to the
               TLS <= 1.2 dispatcher, which releases it; after an error the
               session is dead and the buffer goes with it) */
            if (rc >= 0 || rc == SSL_ENCODE_RESPONSE)
            {
                VF_ASSERT(ssl->fragMessage == NULL && ssl->fragTotal == 0 && ssl->fragIndex == 0, "c08.hs13.reassembly_buffer_released");
            }
        }
#ifdef VF_CBMC
        VF_ASSERT(VF_HEAP_OK(), "c08.hs13.block_operations_inside_live_allocations");
#endif
    }
    VF_REACH("end");
#elif defined(VF_FRAG)
    /* C08: a handshake message that continues in later records - the
       reassembly buffer a not yet authenticated peer can make us allocate is
       bounded like the TLS <= 1.2 one (64 KB + header) */
    VF_ASSUME(hl > NB - 4);
    pre = S;
    rc = tls13ParseHandshakeMessage(ssl, &p, M + NB);
    if (ssl->fragMessage != NULL)
    {
        VF_REACH("reassembly_started");
        VF_ASSERT(ssl->fragTotal <= 65536 + TLS_HS_HDR_LEN, "c08.hs13.reassembly_buffer_bounded");
        VF_ASSERT(ssl->fragIndex == NB && ssl->fragIndex < ssl->fragTotal, "c18.hs13.first_fragment_stored");
        VF_ASSERT(rc == SSL_PARTIAL && p == M + NB, "c18.hs13.partial_message_consumed_and_more_requested");
        VF_ASSERT(ssl->hsState == pre.hsState, "c06.hs13.partial_message_leaves_state");
    }
    else
    {
        VF_REACH("refused");
        VF_ASSERT(rc < 0, "c08.hs13.oversize_message_refused");
    }
    VF_REACH("end");
#else
    /* one complete handshake message in the buffer */
    VF_ASSUME(hl <= NB - 4);
    pre = S;
    type = M[0];
    server = (ssl->flags & SSL_FLAGS_SERVER) != 0;
    psk = ssl->sec.tls13UsingPsk;
    tickets = K.sessTickets != NULL;

    rc = tls13ParseHandshakeMessage(ssl, &p, M + NB);

    if (ssl->hsState != pre.hsState)
    {
        VF_REACH("state_advanced");
        VF_ASSERT(type < 32, "c06.hs13.advance_only_on_known_message");
        if (type < 32)
        {
            if (type == SSL_HS_EOED)
            {
                VF_ASSERT(g_act_hs == 1, "c06.hs13.eoed_switches_keys");
            }
            else if (!(type == SSL_HS_SERVER_HELLO && g_hrr))
            {
                VF_ASSERT(g_calls[type] >= 1 && g_ok[type] == g_calls[type], "c06.hs13.advance_only_after_own_parser_succeeded");
            }
            VF_ASSERT(ssl->hsState == successor(&pre, type, server, psk, tickets, g_hrr), "c06.hs13.next_state_is_rfc_successor");
            if (type == SSL_HS_FINISHED)
            {
                VF_ASSERT(g_act_app == 1, "c06.hs13.finished_activates_application_keys");
            }
            if (type == SSL_HS_SERVER_HELLO && !g_hrr)
            {
                VF_ASSERT(g_cact_hs == 1, "c06.hs13.server_hello_activates_handshake_keys");
            }
        }
        VF_ASSERT(rc >= 0 || rc == SSL_ENCODE_RESPONSE, "c06.hs13.advance_is_not_an_error");
    }
    else
    {
        VF_REACH("state_kept");
    }
    if (rc < 0 && rc != SSL_ENCODE_RESPONSE && rc != SSL_PARTIAL && rc != SSL_NO_TLS_1_3)
    {
        VF_REACH("failed");
        VF_ASSERT(ssl->hsState == pre.hsState, "c06.hs13.failed_message_leaves_state");
    }
    if (g_hrr && rc == SSL_ENCODE_RESPONSE)
    {
        VF_REACH("hello_retry_request");
        VF_ASSERT(ssl->hsState == SSL_HS_TLS_1_3_START, "c06.hs13.hrr_back_to_start");
        VF_ASSERT(ssl->tls13ClientEarlyDataEnabled == PS_FALSE, "c17.no_early_data_after_hello_retry_request");
        VF_ASSERT(g_tr_reinit == 1, "c10.hrr_transcript_replaced_by_message_hash");
    }
    VF_REACH("end");
#endif
}
