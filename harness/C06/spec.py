# C06 - Handshakes follow a legal message sequence; no step can be skipped
HARNESSES = [
    COMMON["dec12"]("ccs_gate", ["C06"], COMMON["dec12_cases"](64, 40, dtls_only=("dtls10", "dtls12n")) + COMMON["dec12_cases"](96, 56, tier="thorough")),
]
PROPERTY = dict(level="model_checking", explanation="", bounds="", outside="", assumptions=[])
