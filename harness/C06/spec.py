# C06 - Handshakes follow a legal message sequence; no step can be skipped
HARNESSES = [
    dict(name="hs_state13", src="hs_state13.c", checks=[],
         functions=["tls13CheckHsState"], sources=["matrixssl/tls13Decode.c"],
         assumptions=["hs_state13: all 256 hsState values x all 256 message types x both roles; oracle = RFC 8446 Appendix A transition table in this implementation's state names"],
         cases=[dict(name="all", defs={})]),
    COMMON["dec12"]("ccs_gate", ["C06"], COMMON["dec12_cases"](64, 40, dtls_only=("dtls10", "dtls12n")) + COMMON["dec12_cases"](96, 56, tier="thorough")),
]
PROPERTY = dict(level='model_checking',
    claim='ChangeCipherSpec activates the read cipher only when Finished is expected (or the documented ticket-limbo cases after deriving keys); the handshake parser is entered only for handshake records, once per call.',
    bounds='as C01 (record decoder harness)',
    outside='the handshake dispatcher parseSSLHandshake / tls13ParseHandshakeMessage transition tables (C06.a/d) are not yet encoded: message-order checking inside the handshake layer is NOT decided',
    explanation='ChangeCipherSpec activates the read cipher only when Finished is expected (or the documented ticket-limbo cases after deriving keys); the handshake parser is entered only for handshake records, once per call.',
    assumptions=[])
