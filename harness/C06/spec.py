# C06 - Handshakes follow a legal message sequence; no step can be skipped
HARNESSES = [
    dict(name="hs_state13", src="hs_state13.c", checks=[],
         functions=["tls13CheckHsState"], sources=["matrixssl/tls13Decode.c"],
         assumptions=["hs_state13: all 256 hsState values x all 256 message types x both roles; oracle = RFC 8446 Appendix A transition table in this implementation's state names"],
         cases=[dict(name="all", defs={})]),
    dict(name="finished12", src="finished12.c", checks=[],
         units=["core/src/corelib_strings.c", "matrixssl/hsNegotiateVersion.c"],
         functions=["parseFinished", "memcmpct"], sources=["matrixssl/hsDecode.c", "core/src/corelib_strings.c"],
         assumptions=["finished12: session state arbitrary (RI-ssl) in hsState FINISHED; message bytes, available length, claimed length and transcript digest arbitrary; sslFreeHSHash / psX509FreeCert are no-ops; version enumerated"],
         unwind=50,
         cases=[dict(name=nm, defs={"VF_VER": v}) for nm, v in (("tls12", "(v_tls_1_2|v_tls_negotiated)"), ("tls11", "(v_tls_1_1|v_tls_negotiated)"), ("dtls12", "(v_dtls_1_2|v_tls_negotiated)"))]),
    COMMON["dec12"]("ccs_gate", ["C06"], COMMON["dec12_cases"](64, 40, dtls_only=("dtls10", "dtls12n")) + COMMON["dec12_cases"](96, 56, tier="thorough")),
]
PROPERTY = dict(level='model_checking',
    claim='ChangeCipherSpec activates the read cipher only when Finished is expected (or the documented ticket-limbo cases after deriving keys); the handshake parser is entered only for handshake records, once per call; tls13CheckHsState accepts exactly the RFC 8446 transition table; parseFinished completes the handshake only after ChangeCipherSpec with a verify_data equal in every byte to the transcript value of the receiver.',
    bounds='as C01 (record decoder harness)',
    outside='the transition exceptions of the TLS<=1.2 dispatcher (parseSSLHandshake: only memory safety, fragment handling and DTLS message sequence are decided, in C08/C16), the per-message parsers that choose the next state, the computation of the transcript value',
    explanation='ChangeCipherSpec activates the read cipher only when Finished is expected (or the documented ticket-limbo cases after deriving keys); the handshake parser is entered only for handshake records, once per call.',
    assumptions=[])
