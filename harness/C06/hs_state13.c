/* hs_state13.c - C06.d: the TLS 1.3 handshake transition check.
 * Unit: the real tls13CheckHsState (matrixssl/tls13Decode.c), the gate every
 * received TLS 1.3 handshake message passes before its parser runs.
 * Oracle: the (state, message) pairs of RFC 8446 Appendix A.1/A.2 as used by
 * this implementation's state names; for ALL 256 x 256 (hsState, type) pairs
 * and both roles: accepted iff in the table, otherwise MATRIXSSL_ERROR with
 * unexpected_message.
 */
#include "vf.h"
#include "matrixssl/tls13Decode.c"
#include "ssl_state.h"
#include "trace_stubs.h"

static int allowed(int server, uint8_t st, uint8_t msg)
{
    switch (msg)
    {
    case SSL_HS_CLIENT_HELLO:
        return st == SSL_HS_TLS_1_3_START;
    case SSL_HS_SERVER_HELLO:
        return st == SSL_HS_TLS_1_3_WAIT_SH;
    case SSL_HS_ENCRYPTED_EXTENSION:
        return st == SSL_HS_TLS_1_3_WAIT_EE;
    case SSL_HS_CERTIFICATE_REQUEST:
        return st == SSL_HS_TLS_1_3_WAIT_CERT_CR;
    case SSL_HS_CERTIFICATE:
        return st == SSL_HS_TLS_1_3_WAIT_CERT || st == SSL_HS_TLS_1_3_WAIT_CERT_CR;
    case SSL_HS_CERTIFICATE_VERIFY:
        return st == SSL_HS_TLS_1_3_WAIT_CV;      /* only directly after Certificate */
    case SSL_HS_EOED:
        return st == SSL_HS_TLS_1_3_WAIT_EOED;
    case SSL_HS_FINISHED:
        return st == SSL_HS_TLS_1_3_WAIT_FINISHED; /* never while a Certificate / CertificateVerify is outstanding */
    case SSL_HS_NEW_SESSION_TICKET:
        return !server && (st == SSL_HS_DONE || st == SSL_HS_TLS_1_3_WAIT_FINISHED);
    default:
        return 0;
    }
}

VF_MAIN
{
    ssl_t *ssl = &S;
    uint8_t msg = vf_u8();
    int32_t rc;
    int server;

    VF_HAVOC(S, ssl_t);
    ssl->flags = vf_u32();
    ssl->hsState = vf_u8();
    ssl->err = SSL_ALERT_NONE;
    ssl->sec.cert = NULL;
    server = (ssl->flags & SSL_FLAGS_SERVER) != 0;

    rc = tls13CheckHsState(ssl, msg);

    if (rc == PS_SUCCESS)
    {
        VF_REACH("accepted");
        VF_ASSERT(allowed(server, ssl->hsState, msg), "c06.tls13_only_table_transitions_accepted");
        VF_ASSERT(ssl->err == SSL_ALERT_NONE, "c06.tls13_accept_no_alert");
    }
    else
    {
        VF_REACH("refused");
        VF_ASSERT(rc == MATRIXSSL_ERROR && ssl->err == SSL_ALERT_UNEXPECTED_MESSAGE, "c06.tls13_refusal_is_unexpected_message");
        VF_ASSERT(!allowed(server, ssl->hsState, msg), "c06.tls13_table_transitions_not_refused");
    }
    VF_REACH("end");
}
