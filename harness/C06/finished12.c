/* finished12.c - C06.b: the TLS<=1.2 / DTLS Finished check.
 * Unit: the real parseFinished (matrixssl/hsDecode.c) from an arbitrary
 * session state, arbitrary message bytes, arbitrary transcript digest.
 * Decided: the handshake state moves to SSL_HS_DONE only if the read cipher
 * had been activated by a ChangeCipherSpec (READ_SECURE), the message has the
 * exact verify_data length and every byte of it equals the receiver's own
 * transcript value; every other message is refused with a fatal alert and
 * leaves the state where it was.
 */
#include "vf.h"
#include "matrixssl/matrixsslImpl.h"
#include "matrixssl/hsDecode.c"
#include "ssl_state.h"
#include "trace_stubs.h"

#define NB 16
static unsigned char M[NB];
static unsigned char H[SHA384_HASH_SIZE];
static int g_free_hash;

void sslFreeHSHash(ssl_t *ssl)
{
    g_free_hash++;
}
void psX509FreeCert(psX509Cert_t *c)
{
}

VF_MAIN
{
    ssl_t *ssl = &S;
    unsigned char *c = M;
    int32 hsLen = (int32) vf_u8();
    uint32 avail = vf_u8();
    int32 rc, i, same = 1;
    uint8_t st0;

    VF_HAVOC(S, ssl_t);
    vf_ssl_scalars(ssl, 0);
    vf_ssl_pointers(ssl);
    ssl->sec.cert = NULL;
    ssl->sec.premaster = NULL;
    ssl->ckeMsg = NULL;
    ssl->certVerifyMsg = NULL;
    ssl->sec.hint = NULL;
    ssl->fragMessage = NULL;
    /* RI of the dispatcher: parseFinished is entered in state FINISHED */
    ssl->hsState = SSL_HS_FINISHED;
    st0 = ssl->hsState;
    vf_bytes(M, NB);
    vf_bytes(H, SHA384_HASH_SIZE);
    VF_ASSUME(avail <= NB);
    /* dispatcher contract: hsLen bytes of this message lie inside the record
       (checked there); the record may hold less than a verify_data */
    VF_ASSUME(hsLen <= SHA384_HASH_SIZE);

    rc = parseFinished(ssl, hsLen, H, &c, M + avail);

    for (i = 0; i < TLS_HS_FINISHED_SIZE; i++)
    {
        same &= (M[i] == H[i]);
    }
    if (ssl->hsState == SSL_HS_DONE)
    {
        VF_REACH("handshake_done");
        VF_ASSERT(rc == PS_SUCCESS || rc == SSL_PROCESS_DATA, "c06.finished_done_only_on_success");
        VF_ASSERT(ssl->flags & SSL_FLAGS_READ_SECURE, "c06.finished_only_after_change_cipher_spec");
        VF_ASSERT(hsLen == TLS_HS_FINISHED_SIZE && avail >= TLS_HS_FINISHED_SIZE, "c06.finished_exact_verify_data_length");
        VF_ASSERT(same, "c06.finished_verify_data_equals_own_transcript");
        VF_ASSERT(c == M + TLS_HS_FINISHED_SIZE, "c06.finished_consumed");
        VF_ASSERT(ssl->err == SSL_ALERT_NONE, "c06.finished_success_no_alert");
    }
    else
    {
        VF_REACH("refused");
        VF_ASSERT(rc < 0 && rc != SSL_PROCESS_DATA, "c06.bad_finished_is_error");
        VF_ASSERT(ssl->err != SSL_ALERT_NONE, "c06.bad_finished_fatal_alert");
        VF_ASSERT(ssl->hsState == st0, "c06.bad_finished_leaves_state");
    }
    /* converse: a genuine Finished after CCS completes the handshake */
    if ((ssl->flags & SSL_FLAGS_READ_SECURE) && hsLen == TLS_HS_FINISHED_SIZE && avail >= TLS_HS_FINISHED_SIZE && same)
    {
        VF_REACH("genuine");
        VF_ASSERT(ssl->hsState == SSL_HS_DONE, "c06.genuine_finished_accepted");
    }
    VF_REACH("end");
}
