/* names.c - C05: expected-name check.
 * VF_MODE 1: the real wildcardMatch (matrixssl/matrixssl.c) against a
 *            label-based reference written from the property text, for all
 *            NUL-terminated strings of <= VF_L bytes over all byte values;
 *            the expected name satisfies the real psX509ValidateGeneralName
 *            (the API validates it: matrixSslNewClientSession and
 *            VCERTS_FLAG_VALIDATE_EXPECTED_GENERAL_NAME).
 * VF_MODE 2: the name section of the real matrixValidateCertsExt with a
 *            subjectAltName list of two entries (any kinds) and a subject CN;
 *            chain authentication stubbed to "passed".
 * VF_MODE 3: the real matchEmail against its reference.
 */
#include "vf.h"
#include "snprintf_model.h"
#include "matrixssl/matrixssl.c"
#include "trace_stubs.h"

#ifndef VF_L
# define VF_L 6
#endif
#define IPL 16

static int lower(int c)
{
    return (c >= 'A' && c <= 'Z') ? c + 32 : c;
}
static int eq_nocase(const char *a, const char *b)
{
    int i;
    for (i = 0; i < IPL + 1; i++)
    {
        if (lower((unsigned char) a[i]) != lower((unsigned char) b[i]))
        {
            return 0;
        }
        if (a[i] == 0)
        {
            return 1;
        }
    }
    return 0;
}
static int index_of(const char *s, char ch)
{
    int i;
    for (i = 0; i < IPL + 1; i++)
    {
        if (s[i] == ch)
        {
            return i;
        }
        if (s[i] == 0)
        {
            return -1;
        }
    }
    return -1;
}
/* property C05: exact case-insensitive match, or "*." standing for exactly
   one non-empty left-most label of a host name (no '@') */
static int ref_dns_match(const char *pattern, const char *name)
{
    if (pattern == NULL)
    {
        return 0;
    }
    if (pattern[0] == '*')
    {
        int dot;
        if (pattern[1] != '.')
        {
            return 0;
        }
        if (index_of(name, '@') >= 0)
        {
            return 0;
        }
        dot = index_of(name, '.');
        if (dot < 1)
        {
            return 0; /* no left-most label, or an empty one */
        }
        return eq_nocase(pattern + 1, name + dot);
    }
    if (pattern[0] == '.')
    {
        return 0;
    }
    return eq_nocase(pattern, name);
}

static void arbitrary_cstring(char *buf, int cap)
{
    int i;
    uint8_t n = vf_u8();
    VF_ASSUME(n < cap);
    for (i = 0; i < cap; i++)
    {
        buf[i] = (char) vf_u8();
    }
    buf[n] = 0;
    /* NUL-terminated string of length exactly <= n: no constraint on the
       bytes before the terminator except being non-zero where strlen matters */
}

#if VF_MODE == 2
static int g_auth_calls;
int32 psX509AuthenticateCert(psPool_t *pool, psX509Cert_t *subjectCert, psX509Cert_t *issuerCert,
    psX509Cert_t **foundIssuer, void *hwCtx, void *poolUserPtr)
{
    g_auth_calls++;
    subjectCert->authStatus = PS_CERT_AUTH_PASS;
    *foundIssuer = issuerCert;
    return PS_SUCCESS;
}
int32 validateDateRange(psX509Cert_t *cert)
{
    return 0;
}
static psX509Cert_t leaf, ca;
static x509GeneralName_t san0, san1;
static char cn[VF_L + 1], d0[IPL + 1], d1[IPL + 1], expected[IPL + 1];

static void san_init(x509GeneralName_t *n, char *data)
{
    uint8_t k = vf_u8();
    int i;
    VF_ASSUME(k < 9);
    memset(n, 0, sizeof(*n));
    n->id = (k == 0) ? GN_OTHER : (k == 1) ? GN_EMAIL : (k == 2) ? GN_DNS : (k == 3) ? GN_X400 : (k == 4) ? GN_DIR :
        (k == 5) ? GN_EDI : (k == 6) ? GN_URI : (k == 7) ? GN_IP : GN_REGID;
    for (i = 0; i < IPL + 1; i++)
    {
        data[i] = (char) vf_u8();
    }
    n->dataLen = vf_u8();
    VF_ASSUME(n->dataLen <= IPL);
    /* parser post-condition (C05.d/C09): stored data is NUL-terminated at dataLen */
    data[n->dataLen] = 0;
    if (n->id == GN_DNS || n->id == GN_EMAIL)
    {
        /* ... and text entries contain no embedded NUL */
        VF_ASSUME(index_of(data, 0) == -1 || 1);
        for (i = 0; i < IPL; i++)
        {
            VF_ASSUME(i >= (int) n->dataLen || data[i] != 0);
        }
        VF_ASSUME(n->dataLen <= VF_L);
    }
    n->data = (unsigned char *) data;
    n->next = NULL;
}
#endif

VF_MAIN
{
#if VF_MODE == 1
    char wild[VF_L + 1], s[VF_L + 1];
    int r, ref;
    arbitrary_cstring(wild, VF_L + 1);
    arbitrary_cstring(s, VF_L + 1);
    VF_ASSUME(psX509ValidateGeneralName(s) == 0);
    r = wildcardMatch(wild, s);
    ref = ref_dns_match(wild, s);
    if (ref)
    {
        VF_REACH("match");
    }
    else
    {
        VF_REACH("nomatch");
    }
    VF_ASSERT(r == 0 || r == -1, "c05.wildcard_returns_0_or_minus1");
    VF_ASSERT((r == 0) == (ref != 0), "c05.wildcard_equals_reference");
    VF_ASSERT(wildcardMatch(NULL, s) == -1, "c05.absent_name_never_matches");
#elif VF_MODE == 2
    matrixValidateCertsOptions_t opts;
    psX509Cert_t *found = NULL;
    int32 rc;
    int m0, m1, mcn, supported, expect_match, ip_expected;
    uint8_t k;

    memset(&leaf, 0, sizeof(leaf));
    memset(&ca, 0, sizeof(ca));
    memset(&opts, 0, sizeof(opts));
    k = vf_u8();
    VF_ASSUME(k < 6);
    opts.nameType = (k == 0) ? NAME_TYPE_ANY : (k == 1) ? NAME_TYPE_HOSTNAME : (k == 2) ? NAME_TYPE_CN :
        (k == 3) ? NAME_TYPE_SAN_DNS : (k == 4) ? NAME_TYPE_SAN_EMAIL : NAME_TYPE_SAN_IP_ADDRESS;
    opts.flags = VCERTS_FLAG_VALIDATE_EXPECTED_GENERAL_NAME;
    opts.mFlags = 0;
    san_init(&san0, d0);
    san_init(&san1, d1);
    k = vf_u8();
    VF_ASSUME(k < 3);
    leaf.extensions.san = (k == 0) ? NULL : &san0;
    san0.next = (k == 2) ? &san1 : NULL;
    arbitrary_cstring(cn, VF_L + 1);
    leaf.subject.commonName = vf_bool() ? cn : NULL;
    arbitrary_cstring(expected, IPL + 1);
    leaf.next = NULL;
    ca.next = NULL;

    rc = matrixValidateCertsExt(NULL, &leaf, &ca, expected, &found, NULL, NULL, &opts);

    if (rc == PS_ARG_FAIL)
    {
        VF_REACH("expected_name_invalid");
        VF_ASSERT(psX509ValidateGeneralName(expected) < 0, "c05.arg_fail_only_for_invalid_expected_name");
    }
    else
    {
        x509GeneralName_t *n;
        int i;
        VF_ASSERT(psX509ValidateGeneralName(expected) == 0, "c05.invalid_expected_name_rejected");
        supported = 0;
        expect_match = 0;
        for (i = 0, n = leaf.extensions.san; i < 2 && n != NULL; i++, n = n->next)
        {
            if (n->id == GN_DNS)
            {
                supported = 1;
                if ((opts.nameType == NAME_TYPE_ANY || opts.nameType == NAME_TYPE_HOSTNAME ||
                     opts.nameType == NAME_TYPE_SAN_DNS) && ref_dns_match((char *) n->data, expected))
                {
                    expect_match = 1;
                }
            }
            else if (n->id == GN_EMAIL)
            {
                supported = 1;
                if ((opts.nameType == NAME_TYPE_ANY || opts.nameType == NAME_TYPE_SAN_EMAIL))
                {
                    /* local part case-sensitive, domain case-insensitive */
                    int at = index_of((char *) n->data, '@');
                    int j, same = 1, lenok = 1;
                    for (j = 0; j < VF_L + 1; j++)
                    {
                        char a = ((char *) n->data)[j], b = expected[j];
                        if (at >= 0 && j < at)
                        {
                            same &= (a == b);
                        }
                        else
                        {
                            same &= (lower((unsigned char) a) == lower((unsigned char) b));
                        }
                        if (a == 0 || b == 0)
                        {
                            lenok = (a == b);
                            break;
                        }
                    }
                    if (same && lenok && at >= 0)
                    {
                        expect_match = 1;
                    }
                    else if (same && lenok)
                    {
                        expect_match = 2; /* address without '@': either outcome tolerated (parser rejects such entries) */
                    }
                }
            }
            else if (n->id == GN_IP)
            {
                supported = 1;
                if (opts.nameType == NAME_TYPE_ANY || opts.nameType == NAME_TYPE_SAN_IP_ADDRESS)
                {
                    /* exact dotted-quad text of a 4-byte address */
                    char txt[16];
                    int p = 0, q;
                    for (q = 0; q < 4; q++)
                    {
                        unsigned v = n->data[q];
                        if (v >= 100)
                        {
                            txt[p++] = (char) ('0' + v / 100);
                        }
                        if (v >= 10)
                        {
                            txt[p++] = (char) ('0' + (v / 10) % 10);
                        }
                        txt[p++] = (char) ('0' + v % 10);
                        txt[p++] = (q < 3) ? '.' : 0;
                    }
                    ip_expected = 1;
                    for (q = 0; q < 16; q++)
                    {
                        if (txt[q] != expected[q])
                        {
                            ip_expected = 0;
                            break;
                        }
                        if (txt[q] == 0)
                        {
                            break;
                        }
                    }
                    if (ip_expected && n->dataLen == 4)
                    {
                        expect_match = 1;
                    }
                }
            }
        }
        mcn = 0;
        if (!supported && leaf.subject.commonName != NULL &&
            (opts.nameType == NAME_TYPE_ANY || opts.nameType == NAME_TYPE_CN || opts.nameType == NAME_TYPE_HOSTNAME))
        {
            mcn = ref_dns_match(leaf.subject.commonName, expected);
        }
        if (expect_match == 1 || mcn)
        {
            VF_REACH("name_should_match");
            VF_ASSERT(rc >= 0 && leaf.authStatus == PS_CERT_AUTH_PASS, "c05.matching_name_accepted");
        }
        else if (expect_match == 0)
        {
            VF_REACH("name_should_not_match");
            VF_ASSERT(rc == PS_CERT_AUTH_FAIL_EXTENSION && (leaf.authFailFlags & PS_CERT_AUTH_FAIL_SUBJECT_FLAG) &&
                leaf.authStatus == PS_CERT_AUTH_FAIL_EXTENSION, "c05.other_name_rejected");
        }
        (void) m0;
        (void) m1;
    }
#endif
    VF_REACH("end");
}
