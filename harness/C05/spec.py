import os
# C05 - Expected-name check accepts only certificates issued for that name
def NAMES(name, mode, l, tier="quick", **kw):
    h = dict(
        name=name, src="names.c", checks=[],
        units=["crypto/keyformat/x509.c", "core/src/corelib_strings.c"],
        functions=["wildcardMatch", "matchEmail", "matrixValidateCertsExt (name section)", "psX509ValidateGeneralName"],
        sources=["matrixssl/matrixssl.c", "crypto/keyformat/x509.c"],
        assumptions=["names: strings are NUL-terminated, all 256 byte values, length <= L; expected name accepted by the real psX509ValidateGeneralName; chain authentication stubbed to 'passed'; SAN entries are as the parser stores them (NUL-terminated at dataLen, no embedded NUL in dNSName/rfc822Name: decided in C05.d/C09)",
                     "names: CBMC library models of strcasecmp/strchr/strcmp/strlen/strncmp; snprintf model for \"%u.%u.%u.%u\" with C99 truncation (models/snprintf_model.h)"],
        unwind=20,
        cases=[dict(name="l%d" % l, tier=tier, defs={"VF_MODE": mode, "VF_L": l})],
    )
    h.update(kw)
    return h


# parse side of C05: what parseGeneralNames stores for dNSName / rfc822Name / URI
# never contains an embedded NUL or non-printable byte (harness of C09, same code)
_g9 = {"__file__": os.path.join(os.path.dirname(__file__), "..", "C09", "spec.py"), "COMMON": COMMON}
exec(compile(open(_g9["__file__"]).read(), _g9["__file__"], "exec"), _g9)
GN = [dict(h, dir="C09", name="gn_parse_names", cases=[c for c in h["cases"] if c.get("tier", "quick") == "quick"])
      for h in _g9["HARNESSES"] if h["name"] == "gn_parse"]
HARNESSES = GN + [
    NAMES("wildcard", 1, 6),
    NAMES("wildcard_long", 1, 10, tier="thorough"),
    NAMES("name_rule", 2, 5, renames={"crypto/keyformat/x509.c": ["psX509AuthenticateCert", "validateDateRange"]}),
]
PROPERTY = dict(level='model_checking',
    claim='wildcardMatch equals a label-based RFC 6125 reference on all strings up to the bound; the name section of matrixValidateCertsExt accepts exactly when a SAN of the right kind matches (dNSName incl. wildcard, rfc822Name, 4-octet iPAddress as exact dotted quad) or, with no supported SAN, the subject CN; parseGeneralNames stores only printable text without embedded NUL for dNSName / rfc822Name / URI entries.',
    bounds='names <= 6 bytes (thorough 10) over all 256 byte values; SAN lists of <= 2 entries of any kind; expected names <= 16 bytes',
    outside='longer names; psX509ValidateGeneralName itself is used as the precondition on the expected name, not decided',
    explanation='wildcardMatch equals a label-based RFC 6125 reference on all strings up to the bound; the name section of matrixValidateCertsExt accepts exactly when a SAN of the right kind matches (dNSName incl. wildcard, rfc822Name, 4-octet iPAddress as exact dotted quad) or, with no supported SAN, the subject CN; parseGeneralNames stores only printable text without embedded NUL for dNSName / rfc822Name / URI entries.',
    assumptions=[])
