# C05 - Expected-name check accepts only certificates issued for that name
def NAMES(name, mode, l, tier="quick", **kw):
    h = dict(
        name=name, src="names.c", checks=[],
        units=["crypto/keyformat/x509.c", "core/src/corelib_strings.c"],
        functions=["wildcardMatch", "matchEmail", "matrixValidateCertsExt (name section)", "psX509ValidateGeneralName"],
        sources=["matrixssl/matrixssl.c", "crypto/keyformat/x509.c"],
        assumptions=["names: strings are NUL-terminated, all 256 byte values, length <= L; expected name accepted by the real psX509ValidateGeneralName; chain authentication stubbed to 'passed'; SAN entries are as the parser stores them (NUL-terminated at dataLen, no embedded NUL in dNSName/rfc822Name: decided in C05.d/C09)",
                     "names: CBMC library models of strcasecmp/strchr/strcmp/strlen/strncmp; snprintf model for \"%u.%u.%u.%u\" with C99 truncation (models/snprintf_model.h)"],
        unwind=20,
        cases=[dict(name="l%d" % l, tier=tier, defs={"VF_MODE": mode, "VF_L": l})],
    )
    h.update(kw)
    return h


HARNESSES = [
    NAMES("wildcard", 1, 6),
    NAMES("wildcard_long", 1, 10, tier="thorough"),
    NAMES("name_rule", 2, 5, renames={"crypto/keyformat/x509.c": ["psX509AuthenticateCert", "validateDateRange"]}),
]
PROPERTY = dict(level='model_checking',
    claim='wildcardMatch equals a label-based RFC 6125 reference on all strings up to the bound; the name section of matrixValidateCertsExt accepts exactly when a SAN of the right kind matches (dNSName incl. wildcard, rfc822Name, 4-octet iPAddress as exact dotted quad) or, with no supported SAN, the subject CN.',
    bounds='names <= 6 bytes (thorough 10) over all 256 byte values; SAN lists of <= 2 entries of any kind; expected names <= 16 bytes',
    outside='longer names; psX509ValidateGeneralName itself is used as the precondition on the expected name, not decided',
    explanation='wildcardMatch equals a label-based RFC 6125 reference on all strings up to the bound; the name section of matrixValidateCertsExt accepts exactly when a SAN of the right kind matches (dNSName incl. wildcard, rfc822Name, 4-octet iPAddress as exact dotted quad) or, with no supported SAN, the subject CN.',
    assumptions=[])
