/* version.c - C07.a/b/c: protocol version selection.
 * Units: the real checkClientHelloVersion, tlsServerNegotiateVersion,
 * checkSupportedVersions, checkServerHelloVersion, performTls13DowngradeCheck,
 * psVerFromEncodingMajMin (matrixssl/hsNegotiateVersion.c),
 * tls13IntersectionPrioritySelect (tls13KeyAgree.c), weOnlySupportTls13 (tls.c).
 *
 * The enabled-version set is a symbolic bitmask (every subset), the priority
 * list an arbitrary ordering of exactly that set (RI of matrixsslInitVer.c).
 *  VF_MODE 1 server, legacy client_version only
 *  VF_MODE 2 server, supported_versions extension present
 *  VF_MODE 3 client, ServerHello version + downgrade sentinel
 */
#include "vf.h"
#include "matrixssl/hsNegotiateVersion.c"
#include "ssl_state.h"
#include "trace_stubs.h"

static const psProtocolVersion_t ALLV[5] = { v_tls_1_1, v_tls_1_2, v_tls_1_3, v_dtls_1_0, v_dtls_1_2 };

/* arbitrary enabled set (TLS family or DTLS family) with an arbitrary
   priority order of exactly its members */
static void arbitrary_versions(psProtocolVersion_t *mask, psProtocolVersion_t *prio, psProtocolVersion_t *len, int maxlen)
{
    int i, j, n;
    psProtocolVersion_t m = 0;
    n = vf_u8();
    VF_ASSUME(n >= 1 && n <= maxlen);
    for (i = 0; i < 4; i++)
    {
        if (i < n)
        {
            uint8_t k = vf_u8();
            VF_ASSUME(k < 5);
            prio[i] = ALLV[k];
            /* no duplicates */
            for (j = 0; j < 4; j++)
            {
                VF_ASSUME(j >= i || prio[j] != prio[i]);
            }
            m |= prio[i];
        }
    }
    /* one family per session */
    VF_ASSUME(!((m & v_dtls_any) && (m & v_tls_any)));
    *mask = m;
    *len = n;
}

static int rank(psProtocolVersion_t v)
{
    /* protocol order within a family */
    return (v == v_tls_1_1 || v == v_dtls_1_0) ? 1 : (v == v_tls_1_2 || v == v_dtls_1_2) ? 2 : (v & v_tls_1_3_any) ? 3 : 0; /* draft encodings rank as TLS 1.3 */
}

VF_MAIN
{
    ssl_t *ssl = &S;
    int32 rc;
    int i;

    VF_HAVOC(S, ssl_t);
    ssl->flags = vf_u32();
    ssl->err = SSL_ALERT_NONE;
    ssl->activeVersion = v_undefined;
    {
        psProtocolVersion_t len = 0;
        arbitrary_versions(&ssl->supportedVersions, ssl->supportedVersionsPriority, &len, 3);
        ssl->supportedVersionsPriorityLen = len;
    }

#if VF_MODE == 1
    {
        unsigned char maj = vf_u8(), min = vf_u8();
        psProtocolVersion_t peer = psVerFromEncodingMajMin(maj, min);
        ssl->peerHelloVersion = peer;
        ssl->extFlags.got_supported_versions = 0;
        rc = tlsServerNegotiateVersion(ssl);
        if (rc == PS_SUCCESS)
        {
            psProtocolVersion_t v = ssl->activeVersion & ~v_tls_negotiated;
            int better = 0;
            VF_REACH("negotiated");
            VF_ASSERT(ssl->activeVersion & v_tls_negotiated, "c07.negotiated_flag");
            VF_ASSERT(v != 0 && (v & (v - 1)) == 0, "c07.single_version");
            VF_ASSERT(ssl->supportedVersions & v, "c07.version_enabled_by_us");
            VF_ASSERT(rank(peer) != 0 && rank(v) <= rank(peer), "c07.not_above_client_version");
            VF_ASSERT(((v & v_dtls_any) != 0) == ((peer & v_dtls_any) != 0), "c07.same_family");
            if (ssl->supportedVersions & peer)
            {
                VF_ASSERT(v == peer, "c07.client_version_taken_when_enabled");
            }
            /* among the enabled versions below the client's, the one that
               comes first in our priority order */
            for (i = 0; i < 3; i++)
            {
                if (i < (int) ssl->supportedVersionsPriorityLen)
                {
                    psProtocolVersion_t w = ssl->supportedVersionsPriority[i];
                    if (w == v)
                    {
                        break;
                    }
                    if (!(ssl->supportedVersions & peer) && rank(w) < rank(peer) &&
                        ((w & v_dtls_any) != 0) == ((peer & v_dtls_any) != 0))
                    {
                        better = 1;
                    }
                }
            }
            VF_ASSERT(!better, "c07.first_acceptable_in_priority_order");
        }
        else
        {
            int possible = 0;
            VF_REACH("refused");
            VF_ASSERT(ssl->err == SSL_ALERT_PROTOCOL_VERSION, "c07.refusal_is_protocol_version");
            VF_ASSERT(!(ssl->activeVersion & v_tls_negotiated), "c07.refusal_negotiates_nothing");
            for (i = 0; i < 5; i++)
            {
                if ((ssl->supportedVersions & ALLV[i]) && rank(peer) != 0 && rank(ALLV[i]) <= rank(peer) &&
                    ((ALLV[i] & v_dtls_any) != 0) == ((peer & v_dtls_any) != 0) && ALLV[i] != v_tls_1_3)
                {
                    possible = 1;
                }
            }
            VF_ASSERT(!possible, "c07.refused_only_if_no_common_version");
        }
    }
#elif VF_MODE == 2
    {
        psProtocolVersion_t plen = 0, pmask = 0;
        psProtocolVersion_t v;
        int common = 0, both13;
        arbitrary_versions(&pmask, ssl->peerSupportedVersionsPriority, &plen, 3);
        ssl->peerSupportedVersionsPriorityLen = (psSize_t) plen;
        ssl->supportedVersionsPeer = pmask;
        ssl->peerHelloVersion = v_tls_1_2;
        ssl->extFlags.got_supported_versions = 1;
        ssl->gotTls13CiphersuiteInCH = vf_bool();
        rc = tlsServerNegotiateVersion(ssl);
        both13 = (ssl->supportedVersions & v_tls_1_3) && (pmask & v_tls_1_3);
        for (i = 0; i < 5; i++)
        {
            if ((ssl->supportedVersions & ALLV[i]) && (pmask & ALLV[i]) &&
                (ALLV[i] != v_tls_1_3 || ssl->gotTls13CiphersuiteInCH))
            {
                common = 1;
            }
        }
        if (rc == PS_SUCCESS)
        {
            VF_REACH("negotiated");
            v = ssl->activeVersion & ~v_tls_negotiated;
            VF_ASSERT(ssl->activeVersion & v_tls_negotiated, "c07.sv_negotiated_flag");
            VF_ASSERT((ssl->supportedVersions & v) && (pmask & v) && (v & (v - 1)) == 0 && v != 0, "c07.sv_version_enabled_by_both");
            if (v == v_tls_1_3)
            {
                VF_ASSERT(ssl->gotTls13CiphersuiteInCH, "c07.sv_tls13_needs_tls13_suite_offer");
            }
            if (both13 && ssl->gotTls13CiphersuiteInCH)
            {
                VF_ASSERT(v == v_tls_1_3, "c07.sv_tls13_whenever_possible");
            }
        }
        else
        {
            VF_REACH("refused");
            VF_ASSERT(ssl->err == SSL_ALERT_PROTOCOL_VERSION, "c07.sv_refusal_is_protocol_version");
            VF_ASSERT(!common, "c07.sv_refused_only_if_no_common_version");
        }
    }
#else
    {
        unsigned char maj = vf_u8(), min = vf_u8();
        psProtocolVersion_t peer = psVerFromEncodingMajMin(maj, min);
        int sentinel;
        ssl->peerHelloVersion = peer;
        vf_bytes(ssl->sec.serverRandom, SSL_HS_RANDOM_SIZE);
        sentinel = (memcmp(ssl->sec.serverRandom + 24, "DOWNGRD\x01", 8) == 0) ||
            (memcmp(ssl->sec.serverRandom + 24, "DOWNGRD\x00", 8) == 0);
        rc = checkServerHelloVersion(ssl);
        if (rc == MATRIXSSL_SUCCESS)
        {
            VF_REACH("accepted");
            VF_ASSERT((ssl->supportedVersions & peer) && peer != 0, "c07.cli_version_enabled_by_us");
            VF_ASSERT(ssl->activeVersion == (peer | v_tls_negotiated), "c07.cli_negotiated");
            if (!(peer & v_tls_1_3_any) && !(peer & v_dtls_any))
            {
                /* a < 1.3 ServerHello: the downgrade check runs next */
                int32 rc2 = performTls13DowngradeCheck(ssl);
                if ((ssl->supportedVersions & v_tls_1_3) && sentinel)
                {
                    VF_REACH("downgrade_detected");
                    VF_ASSERT(rc2 != MATRIXSSL_SUCCESS && ssl->err == SSL_ALERT_ILLEGAL_PARAMETER, "c07.cli_downgrade_sentinel_fatal");
                }
                if (rc2 == MATRIXSSL_SUCCESS)
                {
                    VF_ASSERT(!((ssl->supportedVersions & v_tls_1_3) && sentinel), "c07.cli_downgrade_never_accepted");
                }
            }
        }
        else
        {
            VF_REACH("refused");
            VF_ASSERT(ssl->err == SSL_ALERT_PROTOCOL_VERSION, "c07.cli_refusal_alert");
            VF_ASSERT(!(ssl->supportedVersions & peer) || peer == 0, "c07.cli_refused_only_if_not_enabled");
        }
    }
#endif
    VF_REACH("end");
}
