# C07 - Negotiated parameters are ones both sides enabled; downgrades refused
def VER(name, mode):
    return dict(
        name=name, src="version.c", checks=[],
        units=["matrixssl/tls13KeyAgree.c", "matrixssl/tls.c"],
        functions=["tlsServerNegotiateVersion", "checkClientHelloVersion", "checkSupportedVersions", "tls13IntersectionPrioritySelect",
                   "checkServerHelloVersion", "performTls13DowngradeCheck", "weOnlySupportTls13", "psVerFromEncodingMajMin"],
        sources=["matrixssl/hsNegotiateVersion.c", "matrixssl/tls13KeyAgree.c", "matrixssl/tls.c"],
        assumptions=["version: enabled set = any non-empty subset (<= 3 members) of one family {TLS1.1,TLS1.2,TLS1.3} or {DTLS1.0,DTLS1.2}; priority list = any ordering of exactly that set (what matrixsslInitVer.c builds); peer versions arbitrary wire bytes (legacy) or an arbitrary priority list of <= 3 versions (supported_versions)"],
        unwind=40,
        unwindset={"tls13IntersectionPrioritySelect:/for \\(i = 0/": 5, "tls13IntersectionPrioritySelect:/for \\(k = 0/": 5, "tls13IntersectionPrioritySelect:/for \\(l = 0/": 8},
        cases=[dict(name="m%d" % mode, defs={"VF_MODE": mode})],
    )


CS = dict(
    name="cipher_spec", src="cipher_spec.c", checks=[],
    units=["matrixssl/hsNegotiateVersion.c"],
    functions=["sslGetCipherSpec", "matrixSslSetCipherSuiteEnabledStatus"],
    sources=["matrixssl/cipherSuite.c"],
    assumptions=["cipher_spec: the real supportedCiphers table of the default configuration; suite id, per-session disabled list (32 slots, arbitrary contents incl. holes), global disabled bits, flags and versions arbitrary"],
    undefined_ok=["psGetOutputBlockLength"],
    unwind=90, unwindset={"vf_harness:/for \\(i = 0; i < SSL_MAX_DISABLED/": 34, "vf_harness:/for \\(i = 0; i < 8/": 10, "table_index:/./": 90},
    cap_s=1500,
    cases=[dict(name="op%d" % o, tier=("thorough" if o == 1 else "quick"), defs={"VF_OP": o}) for o in (0, 1, 2)],
)
SCSV = dict(
    name="fallback_scsv", src="fallback_scsv.c", checks=[],
    units=["matrixssl/hsNegotiateVersion.c"],
    functions=["parseClientHello", "checkClientHelloVersion", "psVerGetHighestTls", "psVerFromEncodingMajMin"],
    sources=["matrixssl/hsDecode.c", "matrixssl/hsNegotiateVersion.c"],
    assumptions=["fallback_scsv: a TLS ClientHello (client_version 1.0..1.2, empty session id, 3 arbitrary cipher suites) that ends after the suite list - the harness cuts parseClientHello there (callees behind the cut have no body; CBMC reports any call to them); server enabled set = any non-empty subset of {TLS1.0..1.3} with its priority list"],
    undefined_ok="*",
    unwind=12, unwindset={"vf_bytes:/./": 50, "memcpy.0": 40, "psVerGetHighest:/./": 70},
    cases=[dict(name="tls", defs={})],
)
HARNESSES = [SCSV, VER("srv_legacy_version", 1), VER("srv_supported_versions", 2), VER("cli_version", 3), CS]
PROPERTY = dict(level='model_checking',
    claim="Server and client version selection: the negotiated version is enabled by us, not above the client's, in the client's family, the first acceptable one in our priority order; with supported_versions it is in the intersection, TLS 1.3 only if a TLS 1.3 suite was offered and always when both have it; a <1.3 ServerHello carrying a downgrade sentinel is refused. sslGetCipherSpec never returns a suite that is on the session's disabled list (any list contents), globally disabled, or not allowed for the enabled/negotiated versions. A ClientHello with TLS_FALLBACK_SCSV and a client_version below the highest enabled TLS version (1.3 included) is refused with inappropriate_fallback.",
    bounds='every non-empty subset (<=3 members) of one version family as the enabled set, any priority order; peer lists <= 3 versions',
    outside='the choice of the server among the offered suites, group and signature-algorithm selection, extended master secret',
    explanation="Server and client version selection: the negotiated version is enabled by us, not above the client's, in the client's family, the first acceptable one in our priority order; with supported_versions it is in the intersection, TLS 1.3 only if a TLS 1.3 suite was offered and always when both have it; a <1.3 ServerHello carrying a downgrade sentinel is refused.",
    assumptions=[])
