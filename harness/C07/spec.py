# C07 - Negotiated parameters are ones both sides enabled; downgrades refused
def VER(name, mode):
    return dict(
        name=name, src="version.c", checks=[],
        units=["matrixssl/tls13KeyAgree.c", "matrixssl/tls.c"],
        functions=["tlsServerNegotiateVersion", "checkClientHelloVersion", "checkSupportedVersions", "tls13IntersectionPrioritySelect",
                   "checkServerHelloVersion", "performTls13DowngradeCheck", "weOnlySupportTls13", "psVerFromEncodingMajMin"],
        sources=["matrixssl/hsNegotiateVersion.c", "matrixssl/tls13KeyAgree.c", "matrixssl/tls.c"],
        assumptions=["version: enabled set = any non-empty subset (<= 3 members) of one family {TLS1.1,TLS1.2,TLS1.3} or {DTLS1.0,DTLS1.2}; priority list = any ordering of exactly that set (what matrixsslInitVer.c builds); peer versions arbitrary wire bytes (legacy) or an arbitrary priority list of <= 3 versions (supported_versions)"],
        unwind=40,
        unwindset={"tls13IntersectionPrioritySelect:/for \\(i = 0/": 5, "tls13IntersectionPrioritySelect:/for \\(k = 0/": 5, "tls13IntersectionPrioritySelect:/for \\(l = 0/": 8},
        cases=[dict(name="m%d" % mode, defs={"VF_MODE": mode})],
    )


HARNESSES = [VER("srv_legacy_version", 1), VER("srv_supported_versions", 2), VER("cli_version", 3)]
PROPERTY = dict(level='model_checking',
    claim="Server and client version selection: the negotiated version is enabled by us, not above the client's, in the client's family, the first acceptable one in our priority order; with supported_versions it is in the intersection, TLS 1.3 only if a TLS 1.3 suite was offered and always when both have it; a <1.3 ServerHello carrying a downgrade sentinel is refused.",
    bounds='every non-empty subset (<=3 members) of one version family as the enabled set, any priority order; peer lists <= 3 versions',
    outside='cipher-suite, group and signature-algorithm selection, fallback SCSV, extended master secret',
    explanation="Server and client version selection: the negotiated version is enabled by us, not above the client's, in the client's family, the first acceptable one in our priority order; with supported_versions it is in the intersection, TLS 1.3 only if a TLS 1.3 suite was offered and always when both have it; a <1.3 ServerHello carrying a downgrade sentinel is refused.",
    assumptions=[])
