/* fallback_scsv.c - C07.e: RFC 7507 - a ClientHello that carries
 * TLS_FALLBACK_SCSV while the server supports a higher protocol version than
 * ClientHello.client_version is refused with inappropriate_fallback.
 * Unit: the real parseClientHello (matrixssl/hsDecode.c) on a TLS ClientHello
 * that ends right after the cipher-suite list (the harness cuts the message
 * there: everything from the compression field on is outside this harness),
 * with the real checkClientHelloVersion / psVerGetHighestTls.
 * Oracle: the highest TLS version in the server's enabled set, computed from
 * the version bits independently, against the wire version of the hello.
 */
#include "vf.h"
#include "matrixssl/matrixsslImpl.h"
#include "matrixssl/hsDecode.c"
#include "ssl_state.h"
#include "trace_stubs.h"

#define NS 3
#define CHLEN (2 + 32 + 1 + 2 + 2 * NS)
static unsigned char CH[CHLEN];

static int rank_of_wire(unsigned char maj, unsigned char min)
{
    if (maj != 3)
    {
        return -1;
    }
    return (min >= 1 && min <= 3) ? min : -1; /* 1 = TLS1.0, 2 = TLS1.1, 3 = TLS1.2 */
}
static int highest_enabled_rank(psProtocolVersion_t supp)
{
    if (supp & v_tls_1_3_any)
    {
        return 4;
    }
    if (supp & v_tls_1_2)
    {
        return 3;
    }
    if (supp & v_tls_1_1)
    {
        return 2;
    }
    if (supp & v_tls_1_0)
    {
        return 1;
    }
    return 0;
}

VF_MAIN
{
    ssl_t *ssl = &S;
    unsigned char *c = CH;
    int32 rc;
    int i, scsv = 0, cr, sr;
    uint8_t k;

    VF_HAVOC(S, ssl_t);
    vf_ssl_scalars(ssl, 1);
    vf_ssl_pointers(ssl);
    ssl->flags |= SSL_FLAGS_SERVER;
    ssl->flags &= ~(uint32_t) (SSL_FLAGS_ERROR | SSL_FLAGS_CLOSED);
    ssl->rec.majVer = SSL3_MAJ_VER;
    /* the server's enabled set: a non-empty set of TLS versions, priority list = that set */
    k = vf_u8() & 15;
    VF_ASSUME(k != 0);
    ssl->supportedVersions = ((k & 1) ? v_tls_1_0 : 0) | ((k & 2) ? v_tls_1_1 : 0) | ((k & 4) ? v_tls_1_2 : 0) | ((k & 8) ? v_tls_1_3 : 0);
    ssl->supportedVersionsPriorityLen = 0;
    if (k & 8)
    {
        ssl->supportedVersionsPriority[ssl->supportedVersionsPriorityLen++] = v_tls_1_3;
    }
    if (k & 4)
    {
        ssl->supportedVersionsPriority[ssl->supportedVersionsPriorityLen++] = v_tls_1_2;
    }
    if (k & 2)
    {
        ssl->supportedVersionsPriority[ssl->supportedVersionsPriorityLen++] = v_tls_1_1;
    }
    if (k & 1)
    {
        ssl->supportedVersionsPriority[ssl->supportedVersionsPriorityLen++] = v_tls_1_0;
    }
    ssl->activeVersion = v_undefined;
    ssl->err = SSL_ALERT_NONE;

    vf_bytes(CH, CHLEN);
    CH[34] = 0;            /* no session id */
    CH[35] = 0;
    CH[36] = 2 * NS;       /* cipher_suites length */
    for (i = 0; i < NS; i++)
    {
        scsv |= (CH[37 + 2 * i] == 0x56 && CH[38 + 2 * i] == 0x00);
    }
    cr = rank_of_wire(CH[0], CH[1]);
    sr = highest_enabled_rank(ssl->supportedVersions);
    VF_ASSUME(cr >= 1); /* a TLS hello */

    rc = parseClientHello(ssl, &c, CH + CHLEN);

    /* the message ends after the suites: the parser must stop with an error
       there at the latest (cut) */
    VF_ASSERT(rc < 0, "c07.scsv.cut_message_is_refused");
    if (scsv && cr < sr)
    {
        VF_REACH("fallback_detected");
        VF_ASSERT(ssl->err == SSL_ALERT_INAPPROPRIATE_FALLBACK, "c07.fallback_scsv_below_highest_enabled_is_refused");
    }
    else
    {
        VF_REACH("no_fallback");
        VF_ASSERT(ssl->err != SSL_ALERT_INAPPROPRIATE_FALLBACK, "c07.no_spurious_inappropriate_fallback");
    }
    VF_REACH("end");
}
