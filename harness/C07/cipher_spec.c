/* cipher_spec.c - C07.c/d: cipher-suite lookup honours what this side enabled.
 * Unit: the real sslGetCipherSpec and matrixSslSetCipherSuiteEnabledStatus
 * (matrixssl/cipherSuite.c) over the real supportedCiphers table, for an
 * arbitrary suite id, arbitrary per-session disabled list (any contents, holes
 * included), arbitrary global disabled bits, versions and flags.
 *  VF_OP 0: lookup, 1: disable for the session then lookup, 2: disable globally,
 *        3: re-enable another suite, then lookup
 */
#include "vf.h"
#include "matrixssl/matrixsslImpl.h"
#include "matrixssl/cipherSuite.c"
#include "ssl_state.h"
#include "trace_stubs.h"

static int table_index(uint16_t id)
{
    int i, r = -1;
    for (i = 0; i < 256; i++)
    {
        if (r < 0 && supportedCiphers[i].ident == id)
        {
            r = i;
        }
        if (supportedCiphers[i].ident == SSL_NULL_WITH_NULL_NULL)
        {
            break;
        }
    }
    return r;
}

VF_MAIN
{
    ssl_t *ssl = &S;
    const sslCipherSpec_t *r;
    uint16_t id = vf_u16();
    int i, listed = 0, idx;

    VF_HAVOC(S, ssl_t);
    ssl->flags = vf_u32();
    ssl->activeVersion = vf_version(1);
    ssl->supportedVersions = vf_u32() & (v_tls_any | v_dtls_any);
    ssl->keys = NULL; /* key-material filtering (haveKeyMaterial) is outside this harness */
    for (i = 0; i < SSL_MAX_DISABLED_CIPHERS; i++)
    {
        ssl->disabledCiphers[i] = vf_bool() ? vf_u16() : 0;
    }
    for (i = 0; i < 8; i++)
    {
        disabledCipherFlags[i] = vf_u32();
    }
#if VF_OP == 1
    {
        int32_t rc;
        ssl->flags |= SSL_FLAGS_SERVER;
        rc = matrixSslSetCipherSuiteEnabledStatus(ssl, id, PS_FALSE);
        if (rc == PS_SUCCESS)
        {
            VF_REACH("disabled_for_session");
            VF_ASSERT(id == 0 || sslGetCipherSpec(ssl, id) == NULL, "c07.suite_disabled_for_session_is_never_selected");
        }
    }
#elif VF_OP == 3
    {
        /* re-enabling a different suite does not bring a disabled one back */
        uint16_t other = vf_u16();
        ssl->flags |= SSL_FLAGS_SERVER;
        for (i = 0; i < SSL_MAX_DISABLED_CIPHERS; i++)
        {
            listed |= (ssl->disabledCiphers[i] == id);
        }
        VF_ASSUME(listed && id != 0 && other != id);
        (void) matrixSslSetCipherSuiteEnabledStatus(ssl, other, PS_TRUE);
        VF_REACH("other_reenabled");
        listed = 0;
        for (i = 0; i < SSL_MAX_DISABLED_CIPHERS; i++)
        {
            listed |= (ssl->disabledCiphers[i] == id);
        }
        /* (a listed suite is never selected: op 0, for any list contents) */
        VF_ASSERT(listed, "c07.suite_stays_on_disabled_list_after_other_changes");
    }
#elif VF_OP == 2
    {
        int32_t rc = matrixSslSetCipherSuiteEnabledStatus(NULL, id, PS_FALSE);
        if (rc == PS_SUCCESS)
        {
            VF_REACH("disabled_globally");
            VF_ASSERT(sslGetCipherSpec(ssl, id) == NULL, "c07.suite_disabled_globally_is_never_selected");
        }
    }
#else
    for (i = 0; i < SSL_MAX_DISABLED_CIPHERS; i++)
    {
        listed |= (ssl->disabledCiphers[i] == id);
    }
    idx = table_index(id);
    r = sslGetCipherSpec(ssl, id);
    if (r != NULL)
    {
        VF_REACH("selected");
        VF_ASSERT(r->ident == id && idx >= 0 && r == &supportedCiphers[idx], "c07.selected_suite_is_the_requested_one");
        VF_ASSERT(id == 0 || !listed, "c07.suite_on_session_disabled_list_never_selected");
        VF_ASSERT(!(disabledCipherFlags[idx >> 5] & (1UL << (idx & 31))), "c07.globally_disabled_suite_never_selected");
        if (GET_SUPP_VER(ssl) != v_undefined)
        {
            if (NGTD_VER(ssl, v_tls_1_3_any))
            {
                VF_ASSERT(r->type == CS_TLS13 || r->type == CS_NULL, "c07.tls13_only_tls13_suites");
            }
            if (MATRIX_IS_SERVER(ssl) && !SUPP_VER(ssl, v_tls_1_3_any))
            {
                VF_ASSERT(r->type != CS_TLS13, "c07.no_tls13_suite_without_tls13");
            }
            if (!SUPP_VER(ssl, v_tls_sha2) || NGTD_VER(ssl, v_tls_no_sha2))
            {
                VF_ASSERT(!(r->flags & (CRYPTO_FLAGS_SHA2 | CRYPTO_FLAGS_SHA3)), "c07.no_sha2_suite_below_tls12");
            }
        }
        if (ssl->flags & SSL_FLAGS_HTTP2)
        {
            VF_ASSERT((r->flags & (CRYPTO_FLAGS_GCM | CRYPTO_FLAGS_CHACHA)) != 0, "c07.http2_aead_only");
        }
    }
    else
    {
        VF_REACH("refused");
    }
#endif
    VF_REACH("end");
}
