/* rsa_v15.c - C11.a: PKCS#1 v1.5 signature decoding is unique.
 * Unit: the real pubRsaDecryptSignedElementExt, psRsaDecryptPubExt
 * (crypto/pubkey/rsa_pub.c), pkcs1UnpadExt (crypto/keyformat/pkcs.c),
 * psGetDigestInfoPrefix, psIsValidHashLenSigAlgCombination
 * (crypto/common/digest_info.c), memcmpct.
 * Stub: psRsaCrypt writes an ARBITRARY k-byte block as "s^e mod n".
 * Oracle (RFC 8017 9.2, written independently of digest_info.c): the block is
 * accepted iff it is byte for byte
 *     00 01 FF..FF 00 || DigestInfo(alg) || H       (FF count = k - 3 - |T|)
 * with DigestInfo in one of the two DER forms verifiers may accept (NULL or
 * absent AlgorithmIdentifier parameters), and then exactly H is returned.
 * k (modulus bytes) and the hash algorithm are enumerated.
 */
#include "vf.h"
#include "crypto/pubkey/rsa_pub.c"
#include "crypto/keyformat/pkcs.c"
#include "crypto/common/digest_info.c"
#include "crypto/common/alg_info.c"
#include "core/src/corelib_strings.c"
#include "trace_stubs.h"

#ifndef VF_K
# define VF_K 96
#endif
#if VF_ALG == 1
# define HL 20
# define SIGALG OID_SHA1_RSA_SIG
static const unsigned char DI[] = { 0x30, 0x21, 0x30, 0x09, 0x06, 0x05, 0x2b, 0x0e, 0x03, 0x02, 0x1a, 0x05, 0x00, 0x04, 0x14 };
static const unsigned char DI2[] = { 0x30, 0x1f, 0x30, 0x07, 0x06, 0x05, 0x2b, 0x0e, 0x03, 0x02, 0x1a, 0x04, 0x14 };
#elif VF_ALG == 256
# define HL 32
# define SIGALG OID_SHA256_RSA_SIG
static const unsigned char DI[] = { 0x30, 0x31, 0x30, 0x0d, 0x06, 0x09, 0x60, 0x86, 0x48, 0x01, 0x65, 0x03, 0x04, 0x02, 0x01, 0x05, 0x00, 0x04, 0x20 };
static const unsigned char DI2[] = { 0x30, 0x2f, 0x30, 0x0b, 0x06, 0x09, 0x60, 0x86, 0x48, 0x01, 0x65, 0x03, 0x04, 0x02, 0x01, 0x04, 0x20 };
#elif VF_ALG == 384
# define HL 48
# define SIGALG OID_SHA384_RSA_SIG
static const unsigned char DI[] = { 0x30, 0x41, 0x30, 0x0d, 0x06, 0x09, 0x60, 0x86, 0x48, 0x01, 0x65, 0x03, 0x04, 0x02, 0x02, 0x05, 0x00, 0x04, 0x30 };
static const unsigned char DI2[] = { 0x30, 0x3f, 0x30, 0x0b, 0x06, 0x09, 0x60, 0x86, 0x48, 0x01, 0x65, 0x03, 0x04, 0x02, 0x02, 0x04, 0x30 };
#else
# define HL 64
# define SIGALG OID_SHA512_RSA_SIG
static const unsigned char DI[] = { 0x30, 0x51, 0x30, 0x0d, 0x06, 0x09, 0x60, 0x86, 0x48, 0x01, 0x65, 0x03, 0x04, 0x02, 0x03, 0x05, 0x00, 0x04, 0x40 };
static const unsigned char DI2[] = { 0x30, 0x4f, 0x30, 0x0b, 0x06, 0x09, 0x60, 0x86, 0x48, 0x01, 0x65, 0x03, 0x04, 0x02, 0x03, 0x04, 0x40 };
#endif

static unsigned char block[VF_K];   /* what the RSA public operation "recovers" */
static int g_crypt_calls;
int32_t psRsaCrypt(psPool_t *pool, psRsaKey_t *key, const unsigned char *in, psSize_t inlen,
    unsigned char *out, psSize_t *outlen, uint8_t type, void *data)
{
    int i;
    g_crypt_calls++;
    for (i = 0; i < VF_K; i++)
    {
        out[i] = block[i];
    }
    *outlen = VF_K;
    return PS_SUCCESS;
}

/* does block == 00 01 FF* 00 || di || H ? */
static int well_formed(const unsigned char *di, int dilen)
{
    int tlen = dilen + HL, ps = VF_K - 3 - tlen, i, ok = 1;
    if (ps < 8)
    {
        return 0;
    }
    ok &= (block[0] == 0x00 && block[1] == 0x01);
    for (i = 0; i < VF_K; i++)
    {
        if (i >= 2 && i < 2 + ps)
        {
            ok &= (block[i] == 0xFF);
        }
    }
    ok &= (block[2 + ps] == 0x00);
    for (i = 0; i < dilen; i++)
    {
        ok &= (block[3 + ps + i] == di[i]);
    }
    return ok;
}

VF_MAIN
{
    static psRsaKey_t key;
    static unsigned char sig[VF_K], hash[HL + 1];
    int32_t rc;
    int i, wf1, wf2, same = 1;
    psSize_t inlen = vf_u16();

    memset(&key, 0, sizeof(key));
    key.size = VF_K;
    vf_bytes(block, VF_K);
    vf_bytes(sig, VF_K);
    VF_ASSUME(inlen <= VF_K);

    rc = pubRsaDecryptSignedElementExt(NULL, &key, sig, inlen, hash, HL, SIGALG, NULL);

    wf1 = well_formed(DI, sizeof(DI));
    wf2 = well_formed(DI2, sizeof(DI2));
    if (rc == PS_SUCCESS)
    {
        VF_REACH("accepted");
        VF_ASSERT(inlen == VF_K && g_crypt_calls == 1, "c11.rsa_signature_length_is_modulus_length");
        VF_ASSERT(wf1 || wf2, "c11.rsa_accepts_only_the_unique_encoding");
        for (i = 0; i < HL; i++)
        {
            same &= (hash[i] == block[VF_K - HL + i]);
        }
        VF_ASSERT(same, "c11.rsa_returns_the_embedded_digest");
    }
    else
    {
        VF_REACH("rejected");
        VF_ASSERT(!(inlen == VF_K && (wf1 || wf2)), "c11.rsa_valid_encoding_accepted");
    }
    if (inlen != VF_K)
    {
        VF_ASSERT(rc != PS_SUCCESS && g_crypt_calls == 0, "c11.rsa_wrong_length_refused_before_use");
    }
    VF_REACH("end");
}
