/* ecdsa_sig_parse.c - C11 / C08: psEccDsaVerify parses the DER signature
 * SEQUENCE { INTEGER r, INTEGER s } strictly inside the bytes it was given.
 * Unit: the real psEccDsaVerify (crypto/pubkey/ecc_pub.c) with the real
 * getAsnSequence (crypto/keyformat/asn1.c).  pstm_read_asn is a checking
 * contract stub: it asserts that the "bytes available" argument it is handed
 * does not extend past the end of the caller's signature buffer (that
 * argument is the only bound the real function has), then consumes an
 * arbitrary INTEGER or fails.  The arithmetic after parsing is cut off
 * (first allocation fails): it is outside this harness.
 */
#include "vf.h"
#include "crypto/cryptoImpl.h"
#include "crypto/pubkey/ecc_pub.c"
#include "trace_stubs.h"

#ifndef VF_N
# define VF_N 12
#endif
static unsigned char SIG[VF_N];
static psSize_t g_siglen;
static int g_reads, g_bad_window;

int32_t pstm_read_asn(psPool_t *pool, const unsigned char **pp, psSize_t len, pstm_int *a)
{
    psSize_t k = vf_u8();
    g_reads++;
    /* window [*pp, *pp + len) must lie inside [SIG, SIG + siglen) */
    if (*pp < SIG || *pp > SIG + g_siglen || (psSize_t) (SIG + g_siglen - *pp) < len)
    {
        g_bad_window++;
        return PS_PARSE_FAIL;
    }
    if (vf_bool())
    {
        return PS_PARSE_FAIL;
    }
    VF_ASSUME(k >= 2 && k <= len);
    *pp += k;
    a->dp = NULL;
    a->used = 0;
    a->alloc = 1;
    return PS_SUCCESS;
}
int32_t pstm_init_for_read_unsigned_bin(psPool_t *pool, pstm_int *a, psSize_t len)
{
    return PS_MEM_FAIL; /* cut: nothing after the parse is part of this harness */
}
void pstm_clear(pstm_int *a)
{
}

VF_MAIN
{
    psEccKey_t key;
    psEccCurve_t curve;
    unsigned char digest[4];
    int32_t status = 0, rc;

    memset(&key, 0, sizeof(key));
    memset(&curve, 0, sizeof(curve));
    curve.size = 4;
    key.curve = &curve;
    vf_bytes(SIG, VF_N);
    vf_bytes(digest, 4);
    g_siglen = vf_u8();
    VF_ASSUME(g_siglen <= VF_N);

    rc = psEccDsaVerify(NULL, &key, digest, 4, SIG, g_siglen, &status, NULL);

    VF_ASSERT(g_bad_window == 0, "c11.ecdsa_integers_parsed_inside_signature_buffer");
    VF_ASSERT(rc < 0 && status == -1, "c11.ecdsa_unverified_signature_is_invalid");
    if (g_reads == 2)
    {
        VF_REACH("both_integers_read");
    }
    VF_REACH("end");
}
