/* dh_range.c - C11.e (and, with allocation failures enabled, C19): the real
 * psDhGenSharedSecret (crypto/pubkey/dh_gen_secret.c) with the real pstm
 * helpers it uses (init, read_unsigned_bin, count_bits, add_d, cmp, clear...),
 * modular exponentiation stubbed.
 * Oracle: pstm_exptmod is reached only if 2 <= y <= p-2, compared
 * independently on 128-bit integers; out-of-range public values give an error
 * and write nothing.  p: VF_PB bytes big endian (<= 9), y: <= 2 digits.
 */
#include "vf.h"
#include "crypto/pubkey/dh_gen_secret.c"
#include "crypto/math/pstm.c"
#include "trace_stubs.h"

#ifndef VF_PB
# define VF_PB 9
#endif
#ifndef VF_YU
# define VF_YU 2
#endif

static int g_expt_calls;
int32_t pstm_exptmod(psPool_t *pool, const pstm_int *G, const pstm_int *X, const pstm_int *P, pstm_int *Y)
{
    g_expt_calls++;
    /* result: some value below 2^64 (left in Y, which the caller owns) */
    pstm_set(Y, vf_u64());
    return vf_bool() ? PS_SUCCESS : PS_MEM_FAIL;
}
int32_t pstm_mul_comba(psPool_t *pool, const pstm_int *A, const pstm_int *B, pstm_int *C, pstm_digit *paD, psSize_t paDlen)
{
    return PS_FAILURE; /* not reachable from the unit under test */
}
int32_t pstm_sqr_comba(psPool_t *pool, const pstm_int *A, pstm_int *B, pstm_digit *paD, psSize_t paDlen)
{
    return PS_FAILURE;
}
int32_t pstm_montgomery_reduce(psPool_t *pool, pstm_int *a, const pstm_int *m, pstm_digit mp, pstm_digit *paD, psSize_t paDlen)
{
    return PS_FAILURE;
}

static psDhKey_t priv, pub;
static pstm_digit ydig[4];
static unsigned char pbin[VF_PB], outb[16];

VF_MAIN
{
    unsigned __int128 P = 0, Y = 0;
    psSize_t outlen = sizeof(outb);
    int32_t rc;
    int i;

    memset(&priv, 0, sizeof(priv));
    memset(&pub, 0, sizeof(pub));
    priv.type = vf_bool() ? PS_PRIVKEY : PS_PUBKEY;
    for (i = 0; i < VF_PB; i++)
    {
        pbin[i] = vf_u8();
        P = (P << 8) | pbin[i];
    }
    for (i = 0; i < VF_YU; i++)
    {
        ydig[i] = vf_u64();
        Y |= ((unsigned __int128) ydig[i]) << (64 * i);
    }
    pub.pub.dp = ydig;
    pub.pub.alloc = 4;
    pub.pub.used = VF_YU;
    pub.pub.sign = PSTM_ZPOS;
#if VF_YU > 0
    VF_ASSUME(ydig[VF_YU - 1] != 0); /* clamped, as the import functions leave it */
#endif

    rc = psDhGenSharedSecret(NULL, &priv, &pub, pbin, VF_PB, outb, &outlen, NULL);

    if (g_expt_calls > 0)
    {
        VF_REACH("exptmod_reached");
        VF_ASSERT(priv.type == PS_PRIVKEY, "c11.dh_needs_private_key");
        VF_ASSERT(Y >= 2 && P >= 4 && Y <= P - 2, "c11.dh_public_value_in_range_before_use");
        VF_ASSERT(g_expt_calls == 1, "c11.dh_single_exponentiation");
    }
    else
    {
        VF_REACH("refused");
        VF_ASSERT(rc < 0, "c11.dh_refusal_is_error");
    }
#ifndef VF_MALLOC_FAIL
    if (priv.type == PS_PRIVKEY && Y >= 2 && P >= 4 && Y <= P - 2)
    {
        VF_ASSERT(g_expt_calls == 1, "c11.dh_valid_public_value_used");
    }
#endif
    VF_REACH("end");
}
