# C11 - Signatures verify iff valid; public-key results standard; bad keys rejected
RSA = dict(
    name="rsa_v15_unique", src="rsa_v15.c", checks=COMMON["MEMCHECKS"],
    functions=["pubRsaDecryptSignedElementExt", "psRsaDecryptPubExt", "pkcs1UnpadExt", "psGetDigestInfoPrefix", "psIsValidHashLenSigAlgCombination", "memcmpct"],
    sources=["crypto/pubkey/rsa_pub.c", "crypto/keyformat/pkcs.c", "crypto/common/digest_info.c"],
    assumptions=["rsa_v15: psRsaCrypt (s^e mod n) replaced by a stub that yields an arbitrary k-byte block - every value the modular exponentiation could produce; k = 96 bytes (thorough: 128) so that all DigestInfo variants fit; hash algorithm enumerated"],
    unwind=140,
    cases=[dict(name="k%d_alg%d" % (k, a), tier=("quick" if k == 96 else "thorough"), defs={"VF_K": k, "VF_ALG": a})
           for k in (96, 128) for a in (1, 256, 384, 512)],
)
HARNESSES = [RSA]
PROPERTY = dict(level="model_checking", explanation="", bounds="", outside="", assumptions=[])
