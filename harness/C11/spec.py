# C11 - Signatures verify iff valid; public-key results standard; bad keys rejected
RSA = dict(
    name="rsa_v15_unique", src="rsa_v15.c", checks=COMMON["MEMCHECKS"],
    functions=["pubRsaDecryptSignedElementExt", "psRsaDecryptPubExt", "pkcs1UnpadExt", "psGetDigestInfoPrefix", "psIsValidHashLenSigAlgCombination", "memcmpct"],
    sources=["crypto/pubkey/rsa_pub.c", "crypto/keyformat/pkcs.c", "crypto/common/digest_info.c"],
    assumptions=["rsa_v15: psRsaCrypt (s^e mod n) replaced by a stub that yields an arbitrary k-byte block - every value the modular exponentiation could produce; k = 96 bytes (thorough: 128) so that all DigestInfo variants fit; hash algorithm enumerated"],
    unwind=140,
    cases=[dict(name="k%d_alg%d" % (k, a), tier=("quick" if k == 96 else "thorough"), defs={"VF_K": k, "VF_ALG": a})
           for k in (96, 128) for a in (1, 256, 384, 512)],
)
DH = dict(
    name="dh_range", src="dh_range.c", checks=COMMON["MEMCHECKS"],
    renames={"crypto/math/pstm.c": ["pstm_exptmod"]},
    functions=["psDhGenSharedSecret", "pstm_init", "pstm_init_for_read_unsigned_bin", "pstm_read_unsigned_bin", "pstm_count_bits", "pstm_add_d", "pstm_cmp", "pstm_clear", "pstm_to_unsigned_bin"],
    sources=["crypto/pubkey/dh_gen_secret.c", "crypto/math/pstm.c"],
    assumptions=["dh_range: pstm_exptmod is a stub (reached flag, arbitrary result < 2^64); prime of 9 bytes, public value of <= 2 digits (clamped); allocation never fails here"],
    unwind=60,
    cases=[dict(name="p%d_y%d" % (pb, yu), defs={"VF_PB": pb, "VF_YU": yu}) for pb, yu in ((9, 2), (9, 1), (8, 1), (1, 1), (9, 0))],
)
HARNESSES = [RSA]  # DH: no verdict within the cap yet (heap-backed bignums), see DESIGN.md
PROPERTY = dict(level='model_checking',
    claim='PKCS#1 v1.5 signature decoding accepts a recovered block iff it is the unique encoding 00 01 FF..FF 00 DigestInfo H (NULL or absent parameters) and returns exactly H; a signature whose length differs from the modulus length is refused before the key is used. The RSA operation is an arbitrary-block stub.',
    bounds='modulus 96 bytes (thorough 128); SHA-1/256/384/512',
    outside='RSA-PSS, ECDSA r/s range, DH public value range (harness exists, no verdict within the cap), point validation, the group arithmetic itself',
    explanation='PKCS#1 v1.5 signature decoding accepts a recovered block iff it is the unique encoding 00 01 FF..FF 00 DigestInfo H (NULL or absent parameters) and returns exactly H; a signature whose length differs from the modulus length is refused before the key is used. The RSA operation is an arbitrary-block stub.',
    assumptions=[])
