# C11 - Signatures verify iff valid; public-key results standard; bad keys rejected
RSA = dict(
    name="rsa_v15_unique", src="rsa_v15.c", checks=COMMON["MEMCHECKS"],
    functions=["pubRsaDecryptSignedElementExt", "psRsaDecryptPubExt", "pkcs1UnpadExt", "psGetDigestInfoPrefix", "psIsValidHashLenSigAlgCombination", "memcmpct"],
    sources=["crypto/pubkey/rsa_pub.c", "crypto/keyformat/pkcs.c", "crypto/common/digest_info.c"],
    assumptions=["rsa_v15: psRsaCrypt (s^e mod n) replaced by a stub that yields an arbitrary k-byte block - every value the modular exponentiation could produce; k = 96 bytes (thorough: 128) so that all DigestInfo variants fit; hash algorithm enumerated"],
    unwind=140,
    cases=[dict(name="k%d_alg%d" % (k, a), tier=("quick" if k == 96 else "thorough"), defs={"VF_K": k, "VF_ALG": a})
           for k in (96, 128) for a in (1, 256, 384, 512)],
)
DH = dict(
    name="dh_range", src="dh_range.c", checks=COMMON["MEMCHECKS"],
    renames={"crypto/math/pstm.c": ["pstm_exptmod"]},
    functions=["psDhGenSharedSecret", "pstm_init", "pstm_init_for_read_unsigned_bin", "pstm_read_unsigned_bin", "pstm_count_bits", "pstm_add_d", "pstm_cmp", "pstm_clear", "pstm_to_unsigned_bin"],
    sources=["crypto/pubkey/dh_gen_secret.c", "crypto/math/pstm.c"],
    assumptions=["dh_range: pstm_exptmod is a stub (reached flag, arbitrary result < 2^64); prime of 9 bytes, public value of <= 2 digits (clamped); allocation never fails here"],
    unwind=60,
    cases=[dict(name="p%d_y%d" % (pb, yu), defs={"VF_PB": pb, "VF_YU": yu}) for pb, yu in ((9, 2), (9, 1), (8, 1), (1, 1), (9, 0))],
)
PSS = dict(
    name="pss_decode", src="pss_decode.c", checks=COMMON["MEMCHECKS"],
    renames={"crypto/keyformat/pkcs.c": ["pkcs_1_mgf1"]}, units=["crypto/common/alg_info.c"],
    functions=["psPkcs1PssDecode", "psPssHashAlgToHashLen"], sources=["crypto/keyformat/pkcs.c"],
    assumptions=["pss_decode: MGF1 output and the final SHA-1 value are arbitrary bytes (stubs); EM of 26 bytes (SHA-1, salt 0..4 bytes), modulus bit length 8*26, 8*26-1 and 8*26-7 enumerated; allocation succeeds"],
    unwind=30,
    cases=[dict(name="bits%d" % b, defs={"VF_ML": 26, "VF_BITS": b}) for b in (208, 207, 201)],
)
ECP = dict(
    name="ecdsa_sig_parse", src="ecdsa_sig_parse.c", checks=COMMON["MEMCHECKS"],
    units=["crypto/keyformat/asn1.c"],
    functions=["psEccDsaVerify", "getAsnSequence", "getAsnLength"], sources=["crypto/pubkey/ecc_pub.c", "crypto/keyformat/asn1.c"],
    assumptions=["ecdsa_sig_parse: signature buffer of exactly siglen <= 12 bytes, arbitrary contents; pstm_read_asn is a checking stub (window inside the buffer; consumes an arbitrary well-formed INTEGER or fails); the computation after parsing is cut off by a failing first allocation"],
    undefined_ok=["pstm_init_size", "eccNewPoint", "pstm_read_radix", "pstm_cmp", "pstm_read_unsigned_bin", "pstm_invmod", "pstm_mulmod", "eccMulmod", "pstm_init", "pstm_montgomery_setup",
                  "pstm_montgomery_calc_normalization", "pstm_copy", "eccProjectiveDblPoint", "eccProjectiveAddPoint", "eccMap", "pstm_mod", "eccFreePoint", "pstm_set", "pstm_to_unsigned_bin",
                  "pstm_unsigned_bin_size", "psEccGenKey", "pstm_add", "pstm_iszero", "psGetPrngLocked", "pstm_mul_comba", "pstm_read_unsigned_bin", "pstm_count_bits", "pstm_sub", "pstm_cmp_d", "pstm_clamp"],
    unwind=14,
    cases=[dict(name="n12", defs={"VF_N": 12})],
)
HARNESSES = [RSA, PSS, ECP]  # DH: no verdict within the cap yet (heap-backed bignums), see DESIGN.md
PROPERTY = dict(level='model_checking',
    claim='PKCS#1 v1.5 signature decoding accepts a recovered block iff it is the unique encoding 00 01 FF..FF 00 DigestInfo H (NULL or absent parameters) and returns exactly H; a signature whose length differs from the modulus length is refused before the key is used. The RSA operation is an arbitrary-block stub. EMSA-PSS verification accepts exactly the RFC 8017 9.1.2 encodings (trailer, zero leftmost bits, 00..00 01 salt, recomputed hash equal to H), MGF1 and hash as arbitrary-output stubs. psEccDsaVerify parses r and s strictly inside the signature bytes it was given.',
    bounds='modulus 96 bytes (thorough 128); SHA-1/256/384/512',
    outside='PSS with other hashes / sizes than SHA-1 and a 26-byte EM (same code path), ECDSA r/s range (only the DER parse window is decided), DH public value range (harness exists, no verdict within the cap), point validation, the group arithmetic itself',
    explanation='PKCS#1 v1.5 signature decoding accepts a recovered block iff it is the unique encoding 00 01 FF..FF 00 DigestInfo H (NULL or absent parameters) and returns exactly H; a signature whose length differs from the modulus length is refused before the key is used. The RSA operation is an arbitrary-block stub.',
    assumptions=[])
