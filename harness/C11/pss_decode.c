/* pss_decode.c - C11: EMSA-PSS verification (RFC 8017 9.1.2) accepts exactly
 * the encodings the standard accepts.
 * Unit: the real psPkcs1PssDecode (crypto/keyformat/pkcs.c) on an arbitrary
 * recovered encoded message EM of VF_ML bytes, arbitrary message digest and
 * salt length.  MGF1 and the final hash are stubs that produce arbitrary
 * bytes (logged), so the structural checks are decided for every value the
 * real primitives could produce:
 *   accept  <=>  EM ends in 0xBC, the 8*emLen - emBits leftmost bits of EM are
 *   zero, DB = maskedDB xor dbMask (top bits cleared) is 00..00 01 salt, and
 *   H' = Hash(00^8 || mHash || salt) equals H.
 */
#include "vf.h"
#include "crypto/cryptoImpl.h"
static int32 pkcs_1_mgf1(psPool_t *pool, const unsigned char *seed, unsigned long seedlen, int32 hash_idx,
    unsigned char *mask, unsigned long masklen);
#include "crypto/keyformat/pkcs.c"
#include "trace_stubs.h"

#ifndef VF_ML
# define VF_ML 26
#endif
#ifndef VF_BITS
# define VF_BITS (8 * VF_ML)
#endif
#define HL SHA1_HASH_SIZE
#define DBL (VF_ML - HL - 1)

static unsigned char EM[VF_ML], MH[HL], MASK[DBL], HP[HL];
static int g_mgf, g_final;
static const unsigned char *g_mgf_seed;
static unsigned char g_salt_seen[VF_ML];
static uint32 g_salt_len_seen;
static int g_upd;

static int32 pkcs_1_mgf1(psPool_t *pool, const unsigned char *seed, unsigned long seedlen, int32 hash_idx,
    unsigned char *mask, unsigned long masklen)
{
    unsigned long i;
    g_mgf++;
    g_mgf_seed = seed;
    if (vf_bool())
    {
        return PS_MEM_FAIL;
    }
    for (i = 0; i < DBL; i++)
    {
        if (i < masklen)
        {
            mask[i] = MASK[i];
        }
    }
    return PS_SUCCESS;
}
int32_t psSha1Init(psSha1_t *c)
{
    g_upd = 0;
    return PS_SUCCESS;
}
void psSha1Update(psSha1_t *c, const unsigned char *b, uint32_t l)
{
    uint32_t i;
    g_upd++;
    if (g_upd == 3)
    {
        /* third update = the salt taken from DB */
        g_salt_len_seen = l;
        for (i = 0; i < VF_ML; i++)
        {
            if (i < l)
            {
                g_salt_seen[i] = b[i];
            }
        }
    }
}
void psSha1Final(psSha1_t *c, unsigned char out[SHA1_HASHLEN])
{
    int i;
    g_final++;
    for (i = 0; i < HL; i++)
    {
        out[i] = HP[i];
    }
}
/* the other digests are switch cases that hash_idx == SHA-1 never takes */
#define OTHER(T, N) int32_t N##Init(T *c) { return 0; } void N##Update(T *c, const unsigned char *b, uint32_t l) { } void N##Final(T *c, unsigned char *o) { }
OTHER(psMd5_t, psMd5)
OTHER(psSha256_t, psSha256)
OTHER(psSha384_t, psSha384)
OTHER(psSha512_t, psSha512)
errno_t memset_s(void *s, rsize_t smax, int c, rsize_t n)
{
    return 0;
}

VF_MAIN
{
    int32 res = 7, rc;
    uint32 saltlen = vf_u8();
    unsigned i, nz = 8 * VF_ML - (VF_BITS - 1);
    unsigned char topmask = (unsigned char) ~(0xFF >> nz);
    int bc, top, ps_ok = 1, one, hmatch = 1, salt_ok = 1;

    vf_bytes(EM, VF_ML);
    vf_bytes(MH, HL);
    vf_bytes(MASK, DBL);
    vf_bytes(HP, HL);

    rc = psPkcs1PssDecode(NULL, MH, HL, EM, VF_ML, saltlen, PKCS1_SHA1_ID, VF_BITS, &res);

    bc = (EM[VF_ML - 1] == 0xBC);
    top = ((EM[0] & topmask) == 0);
    if (saltlen <= DBL - 1)
    {
        unsigned pslen = DBL - saltlen - 1;
        for (i = 0; i < DBL; i++)
        {
            unsigned char d = EM[i] ^ MASK[i];
            if (i == 0)
            {
                d &= (unsigned char) (0xFF >> nz);
            }
            if (i < pslen)
            {
                ps_ok &= (d == 0);
            }
        }
        {
            unsigned char d1 = EM[pslen] ^ MASK[pslen];
            if (pslen == 0)
            {
                d1 &= (unsigned char) (0xFF >> nz);
            }
            one = (d1 == 0x01);
        }
        for (i = 0; i < HL; i++)
        {
            hmatch &= (HP[i] == EM[DBL + i]);
        }
        /* the salt hashed is the tail of DB */
        for (i = 0; i < DBL; i++)
        {
            if (i < saltlen && g_salt_len_seen == saltlen)
            {
                salt_ok &= (g_salt_seen[i] == (unsigned char) (EM[pslen + 1 + i] ^ MASK[pslen + 1 + i]));
            }
        }
    }
    else
    {
        ps_ok = one = 0;
    }
    if (res == 1)
    {
        VF_REACH("accepted");
        VF_ASSERT(rc == PS_SUCCESS, "c11.pss_accept_only_with_success");
        VF_ASSERT(bc, "c11.pss_trailer_bc");
        VF_ASSERT(top, "c11.pss_leftmost_bits_zero");
        VF_ASSERT(ps_ok && one, "c11.pss_db_is_zero_padding_then_01");
        VF_ASSERT(hmatch && g_final == 1, "c11.pss_hash_matches");
        VF_ASSERT(g_mgf == 1 && g_salt_len_seen == saltlen && salt_ok, "c11.pss_salt_taken_from_db");
        VF_ASSERT(saltlen + HL + 2 <= VF_ML, "c11.pss_lengths_consistent");
    }
    else
    {
        VF_REACH("rejected");
        VF_ASSERT(res == 0, "c11.pss_result_is_boolean");
    }
    /* converse: a well-formed encoding is accepted (when MGF1 did not fail) */
    if (saltlen + HL + 2 <= VF_ML && bc && top && ps_ok && one && hmatch && g_mgf == 1 && rc == PS_SUCCESS)
    {
        VF_REACH("wellformed");
        VF_ASSERT(res == 1, "c11.pss_wellformed_accepted");
    }
    VF_REACH("end");
}
