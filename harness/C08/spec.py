# C08 - No memory fault, hang or leak on any network input in any state
M = COMMON["MEMCHECKS"]
HARNESSES = [
    COMMON["dec12"]("record12_mem", [], COMMON["dec12_cases"](64, 40, dtls_only=("dtls10", "dtls12n")) + COMMON["dec12_cases"](96, 56, tier="thorough"), checks=M),
    COMMON["dec13"]("record13_mem", [], ns=((48, "quick"), (96, "thorough")), checks=M),
]
PROPERTY = dict(level="model_checking", explanation="", bounds="", outside="", assumptions=[])
