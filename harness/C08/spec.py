# C08 - No memory fault, hang or leak on any network input in any state
M = COMMON["MEMCHECKS"]
HARNESSES = [
    COMMON["dec12"]("record12_mem", [], COMMON["dec12_cases"](64, 40, dtls_only=("dtls10", "dtls12n")) + COMMON["dec12_cases"](96, 56, tier="thorough"), checks=M),
    COMMON["dec13"]("record13_mem", [], ns=((48, "quick"), (96, "thorough")), checks=M),
    COMMON["api_recv"](only=None),
    COMMON["hs_dispatch"](),
    dict(name="hs_frag13", dir="C06", src="hs_msg13.c", checks=M,
         renames={"matrixssl/tls13Decode.c": ["tls13ParseClientHello", "tls13ParseServerHello", "tls13ClientActivateHsReadKeys", "tls13ParseCertificateRequest",
                                              "tls13ParseCertificate", "tls13ParseCertificateVerify", "tls13ParseFinished", "tls13ParseNewSessionTicket"],
                  "matrixssl/hsNegotiateVersion.c": ["tlsServerNegotiateVersion"]},
         units=["core/src/psbuf.c", "matrixssl/hsNegotiateVersion.c"],
         functions=["tls13ParseHandshakeMessage", "tls13FragMessageReadInit", "psParseBufCopyN"], sources=["matrixssl/tls13Decode.c", "core/src/psbuf.c"],
         assumptions=["hs_frag13: the first 12 bytes of a TLS 1.3 handshake message whose announced length (any 24-bit value) exceeds what is in the record; arbitrary session state"],
         unwind=20, defs={"VF_FRAG": 1},
         cases=[dict(name="any", defs={"VF_VER": "(v_tls_1_3|v_tls_negotiated)"})]),
    dict(name="supp_versions", src="supp_versions.c", checks=M, units=["matrixssl/hsNegotiateVersion.c"],
         functions=["tls13ParseSupportedVersions", "psVerFromEncodingMajMin"], sources=["matrixssl/tls13DecodeExt.c"],
         assumptions=["supp_versions: extension body is an object of exactly VF_N bytes (sizes 2..9 enumerated), contents arbitrary"],
         undefined_ok="*", unwind=40,
         cases=[dict(name="n%d" % n, defs={"VF_N": n}) for n in range(2, 10)]),
]
PROPERTY = dict(level='model_checking',
    claim="CBMC's memory-safety instrumentation (bounds, pointer, div-by-zero, shift) on the real record decoders for every input within the bound from every RI-state; every loop has a checked unwinding bound (termination within the bound).",
    bounds='as C01 (64/40/48-byte inputs)',
    outside='handshake message parsers and DTLS fragment reassembly are not yet encoded; API buffers above the scaled bound (see C18); signed-overflow idioms; uninitialised reads',
    explanation="CBMC's memory-safety instrumentation (bounds, pointer, div-by-zero, shift) on the real record decoders for every input within the bound from every RI-state; every loop has a checked unwinding bound (termination within the bound).",
    assumptions=[])
