/* hs_dispatch.c - the TLS<=1.2 / DTLS handshake-message dispatcher
 * parseSSLHandshake (matrixssl/sslDecode.c) with its fragment reassembly,
 * from an arbitrary session state satisfying the representation invariant,
 * on an arbitrary decrypted handshake record (C08.b, C16.b, C19, C06.a).
 * Units: the real parseSSLHandshake, dtlsSeenFrag, dtlsInitFrag,
 * dtlsHsHashFragMsg.  The per-message parsers (hsDecode.c) and the handshake
 * hash are contract stubs: a parser may move the cursor anywhere inside
 * [c, end] and return any documented status; the hash stub touches both ends
 * of the range it is given (so CBMC checks that the range is readable).
 *   VF_DTLS 1: DTLS 1.2 (fragment list RI below), 0: TLS 1.2 (spanning
 *   handshake message RI)
 */
#include "vf.h"
#include "heap_model.h"
#include "matrixssl/matrixsslImpl.h"
#include "matrixssl/sslDecode.c"
#include "ssl_state.h"
#include "trace_stubs.h"

#ifndef VF_FM
# define VF_FM 16    /* size of an in-progress reassembly buffer */
#endif
#ifndef NFR
# define NFR 2       /* fragments already stored (0..NFR) */
#endif

static int g_parser_calls, g_hash_calls, g_hash_bad;
static int32 g_parsed_msn_ok = 1;
static unsigned char *g_rec, *g_rec_end;
static unsigned char *g_fm;
static uint32 g_fm_len;
static int32 g_pre_lastMsn;
static int g_cur_msn_known;

static int in_live(const unsigned char *p, uint32 n)
{
#ifdef VF_CBMC
    /* (relational comparison of pointers into different objects is itself
       undefined: compare object identities first) */
    if (__CPROVER_POINTER_OBJECT(p) == __CPROVER_POINTER_OBJECT(g_rec))
    {
        return (size_t) __CPROVER_POINTER_OFFSET(p) + n <= (size_t) (g_rec_end - g_rec);
    }
    if (g_fm != NULL && __CPROVER_POINTER_OBJECT(p) == __CPROVER_POINTER_OBJECT(g_fm))
    {
        return (size_t) __CPROVER_POINTER_OFFSET(p) + n <= (size_t) __CPROVER_POINTER_OFFSET(g_fm) + g_fm_len;
    }
    /* a reassembly buffer allocated by this call */
    if (vf_heap_slot_of(p) >= 0)
    {
        return (size_t) __CPROVER_POINTER_OFFSET(p) + n <= vf_heap_sz[vf_heap_slot_of(p)];
    }
    return 0;
#else
    (void) p;
    (void) n;
    return 1; /* natively the sanitizer decides */
#endif
}

static int32 parser_stub(ssl_t *ssl, unsigned char **cp, unsigned char *end)
{
    uint32 adv = vf_u16();
    int32 rc;
    g_parser_calls++;
    /* the dispatcher hands parsers a window inside a live buffer */
    if (!in_live(*cp, (uint32) (end - *cp)) || end < *cp)
    {
        g_hash_bad++;
        return MATRIXSSL_ERROR;
    }
#ifdef VF_NATIVE
    if (end > *cp)
    {
        /* a real parser reads its window: let the sanitizer see both ends */
        volatile unsigned char t = (*cp)[0];
        t ^= end[-1];
        (void) t;
    }
#endif
    VF_ASSUME(adv <= (uint32) (end - *cp));
    *cp += adv;
    switch (vf_u8() & 3)
    {
    case 0:
        rc = MATRIXSSL_SUCCESS;
        ssl->hsState = vf_u8();
        break;
    case 1:
        rc = SSL_PROCESS_DATA;
        ssl->hsState = vf_u8();
        break;
    default:
        rc = vf_bool() ? MATRIXSSL_ERROR : SSL_MEM_ERROR;
        ssl->err = vf_u8();
        break;
    }
    /* no real parser moves to NEW_SESSION_TICKET (only the dispatcher does,
       for a client that holds a session id) */
    VF_ASSUME(ssl->hsState != SSL_HS_NEW_SESSION_TICKET);
    return rc;
}
int32 parseClientHello(ssl_t *ssl, unsigned char **cp, unsigned char *end)
{
    return parser_stub(ssl, cp, end);
}
int32 parseClientKeyExchange(ssl_t *ssl, int32 hsLen, unsigned char **cp, unsigned char *end)
{
    return parser_stub(ssl, cp, end);
}
int32 parseFinished(ssl_t *ssl, int32 hsLen, unsigned char hsMsgHash[SHA384_HASH_SIZE], unsigned char **cp, unsigned char *end)
{
    return parser_stub(ssl, cp, end);
}
int32 parseServerHello(ssl_t *ssl, int32 hsLen, unsigned char **cp, unsigned char *end)
{
    return parser_stub(ssl, cp, end);
}
int32 parseCertificate(ssl_t *ssl, unsigned char **cp, unsigned char *end)
{
    return parser_stub(ssl, cp, end);
}
int32 parseCertificateStatus(ssl_t *ssl, int32 hsLen, unsigned char **cp, unsigned char *end)
{
    return parser_stub(ssl, cp, end);
}
int32 parseServerHelloDone(ssl_t *ssl, int32 hsLen, unsigned char **cp, unsigned char *end)
{
    return parser_stub(ssl, cp, end);
}
int32 parseCertificateRequest(ssl_t *ssl, int32 hsLen, unsigned char **cp, unsigned char *end)
{
    return parser_stub(ssl, cp, end);
}
int32 parseCertificateVerify(ssl_t *ssl, unsigned char hsMsgHash[SHA512_HASH_SIZE], unsigned char **cp, unsigned char *end)
{
    return parser_stub(ssl, cp, end);
}
int32 parseServerKeyExchange(ssl_t *ssl, unsigned char hsMsgHash[SHA512_HASH_SIZE], unsigned char **cp, unsigned char *end)
{
    return parser_stub(ssl, cp, end);
}
int32 sslUpdateHSHash(ssl_t *ssl, const unsigned char *in, psSize_t len)
{
    g_hash_calls++;
    if (len > 0)
    {
        /* the real hash reads in[0..len): touch both ends */
        volatile unsigned char t = in[0];
        t ^= in[len - 1];
        (void) t;
    }
    return 0;
}
#ifdef VF_CBMC
/* model of the constant-time compare (core/src/corelib_strings.c): both
   ranges must lie inside live blocks; natively the real function runs */
int32 memcmpct(const void *s1, const void *s2, size_t len)
{
    size_t i;
    int32 d = 0;
    vf_heap_chk(s1, len);
    vf_heap_chk(s2, len);
    for (i = 0; i < VF_HEAP_SLOT; i++)
    {
        if (i < len)
        {
            d |= ((const unsigned char *) s1)[i] ^ ((const unsigned char *) s2)[i];
        }
    }
    return d;
}
#endif
int32 sslSnapshotHSHash(ssl_t *ssl, unsigned char *out, psBool_t a, psBool_t b)
{
    return vf_bool() ? 36 : -1;
}
int32 sslInitHSHash(ssl_t *ssl)
{
    return 0;
}
void sslResetContext(ssl_t *ssl)
{
}
int32_t tls13TranscriptHashUpdate(ssl_t *ssl, const unsigned char *in, psSize_t len)
{
    return 0;
}

static unsigned char REC[VF_N];

VF_MAIN
{
    ssl_t *ssl = &S;
    uint32 len;
    int32 rc, i;
    int nfr = 0;

    VF_HAVOC(S, ssl_t);
    vf_ssl_scalars(ssl, 0);
    vf_ssl_pointers(ssl);
    ssl->flags &= ~(uint32_t) (SSL_FLAGS_ERROR | SSL_FLAGS_CLOSED);
    /* RI (record header validation): a TLS record has major version 3, a DTLS
       record 0xFE; SSLv2 hellos are not compiled in */
    ssl->rec.majVer = VF_DTLS ? DTLS_MAJ_VER : SSL3_MAJ_VER;
    ssl->haveCookie = vf_u8() & 1;
    ssl->cookie = NULL;
    ssl->cookieLen = 0;
    if (ssl->haveCookie)
    {
        ssl->cookieLen = vf_u8() % 9;
        ssl->cookie = (unsigned char *) malloc(8);
        VF_ASSUME(ssl->cookie != NULL);
    }
    if (ssl->sid != NULL)
    {
        /* RI of the session id's ticket: pointer and length agree */
        S_sid.sessionTicketLen = vf_u8() % 9;
        S_sid.sessionTicket = NULL;
        if (S_sid.sessionTicketLen > 0)
        {
            S_sid.sessionTicket = (unsigned char *) malloc(S_sid.sessionTicketLen);
            VF_ASSUME(S_sid.sessionTicket != NULL);
            vf_bytes(S_sid.sessionTicket, S_sid.sessionTicketLen);
        }
        S_sid.pool = NULL;
    }
    else
    {
        /* RI: a client that advertised the ticket extension has a session id */
        VF_ASSUME(ssl->hsState != SSL_HS_NEW_SESSION_TICKET);
    }
    /* RI: HELLO_VERIFY_REQUEST is only ever the expected state while no cookie is held */
    VF_ASSUME(ssl->hsState != SSL_HS_HELLO_VERIFY_REQUEST || ssl->haveCookie == 0);
    g_pre_lastMsn = ssl->lastMsn;
    VF_ASSUME(ssl->lastMsn >= -1 && ssl->lastMsn < 0x7fff);

    /* ---- reassembly state ---- */
    for (i = 0; i < MAX_FRAGMENTS; i++)
    {
        ssl->fragHeaders[i].offset = -1;
        ssl->fragHeaders[i].fragLen = 0;
        ssl->fragHeaders[i].hsHeader = NULL;
    }
    ssl->fragMessage = NULL;
    ssl->fragTotal = 0;
    ssl->fragIndex = 0;
    ssl->fragLenStored = 0;
    ssl->fragMsn = 0;
#if VF_DTLS
    if (vf_bool())
    {
        /* RI-frag: a message is being reassembled: fragMessage has
           fragLenStored bytes, the stored fragments lie inside it, are not
           empty, do not overlap, are listed from slot 0 without holes, and
           fragTotal is the sum of their lengths (< fragLenStored) */
        uint32 tot = 0;
        nfr = 1 + (vf_u8() % NFR);
        ssl->fragLenStored = VF_FM;
        ssl->fragMessage = (unsigned char *) malloc(VF_FM);
        VF_ASSUME(ssl->fragMessage != NULL);
        vf_bytes(ssl->fragMessage, VF_FM);
        ssl->fragMsn = vf_u16();
        for (i = 0; i < NFR; i++)
        {
            if (i < nfr)
            {
                int32 off = vf_u8(), fl = vf_u8();
                VF_ASSUME(fl > 0 && off + fl <= VF_FM);
                if (i == 1)
                {
                    int32 o0 = ssl->fragHeaders[0].offset, f0 = ssl->fragHeaders[0].fragLen;
                    VF_ASSUME(off + fl <= o0 || o0 + f0 <= off);
                }
                ssl->fragHeaders[i].offset = off;
                ssl->fragHeaders[i].fragLen = fl;
                ssl->fragHeaders[i].hsHeader = (char *) malloc(DTLS_HEADER_LEN - 1);
                VF_ASSUME(ssl->fragHeaders[i].hsHeader != NULL);
                vf_bytes((unsigned char *) ssl->fragHeaders[i].hsHeader, DTLS_HEADER_LEN - 1);
                /* the stored header is the fragment's own: total length = fragLenStored */
                ssl->fragHeaders[i].hsHeader[1] = 0;
                ssl->fragHeaders[i].hsHeader[2] = 0;
                ssl->fragHeaders[i].hsHeader[3] = VF_FM;
                tot += fl;
            }
        }
        ssl->fragTotal = tot;
        VF_ASSUME(tot < VF_FM);
    }
#else
    if (vf_bool())
    {
        /* RI: a handshake message spanning records: fragIndex < fragTotal
           bytes of fragTotal (header included) are stored */
        ssl->fragTotal = 4 + (vf_u8() % (VF_FM - 3));
        ssl->fragMessage = (unsigned char *) malloc(ssl->fragTotal);
        VF_ASSUME(ssl->fragMessage != NULL);
        ssl->fragIndex = vf_u8();
        VF_ASSUME(ssl->fragIndex >= 4 && ssl->fragIndex < ssl->fragTotal);
    }
#endif
    g_fm = ssl->fragMessage;
    g_fm_len = VF_DTLS ? (uint32) ssl->fragLenStored : ssl->fragTotal;

    /* ---- the record ---- */
    len = vf_u8();
    VF_ASSUME(len >= 1 && len <= VF_N);
    vf_bytes(REC, VF_N);
    g_rec = REC;
    g_rec_end = REC + len;

#ifdef VF_NATIVE
    {
        uint32 q;
        fprintf(stdout, "DBG len=%u hsState=%d lastMsn=%d fragTotal=%u stored=%u nfr=%d sid=%d tlen=%u majVer=%d flags=%x REC=", len, ssl->hsState,
            ssl->lastMsn, ssl->fragTotal, (unsigned) ssl->fragLenStored, nfr, ssl->sid != NULL, ssl->sid ? ssl->sid->sessionTicketLen : 0, ssl->rec.majVer, ssl->flags);
        for (q = 0; q < len; q++)
        {
            fprintf(stdout, "%02x", REC[q]);
        }
        for (q = 0; q < (uint32) nfr; q++)
        {
            fprintf(stdout, " F%u(off=%d,len=%d)", q, ssl->fragHeaders[q].offset, ssl->fragHeaders[q].fragLen);
        }
        fprintf(stdout, "\n");
        fflush(stdout);
    }
#endif
    rc = parseSSLHandshake(ssl, (char *) REC, len);

    VF_ASSERT(g_hash_bad == 0, "c08.hs.parser_window_inside_live_buffer");
    VF_ASSERT(VF_HEAP_OK(), "c08.hs.block_operations_inside_live_allocations");
    if (rc >= 0 || rc == SSL_PROCESS_DATA || rc == DTLS_RETRANSMIT)
    {
        VF_REACH("accepted");
    }
    else
    {
        VF_REACH("rejected");
    }
    /* C19 / C08: the stored session ticket stays a live block of its recorded
       length whatever allocation failed on the way */
    if (ssl->sid != NULL)
    {
        VF_ASSERT((S_sid.sessionTicket == NULL) == (S_sid.sessionTicketLen == 0), "c19.hs.session_ticket_pointer_and_length_agree");
        if (S_sid.sessionTicket != NULL)
        {
#ifdef VF_CBMC
            int sl = vf_heap_slot_of(S_sid.sessionTicket);
            VF_ASSERT(sl >= 0 && vf_heap_sz[sl] >= S_sid.sessionTicketLen && vf_heap_sz[sl] > 0, "c19.hs.session_ticket_is_live_block");
#else
            volatile unsigned char t = S_sid.sessionTicket[0];
            t ^= S_sid.sessionTicket[S_sid.sessionTicketLen - 1];
            (void) t;
#endif
        }
    }
#ifdef VF_FAULT_ALLOC
    if (vf_alloc_faults > 0)
    {
        VF_REACH("allocation_failed");
    }
#endif
#if VF_DTLS
    /* C16.b: a handshake message whose sequence number was already parsed is
       never parsed again (msn == 0 restarts are the hello exchange) */
    if (g_parser_calls > 0 && len >= 6)
    {
        int32 msn = (REC[4] << 8) | REC[5];
        VF_REACH("parsed");
        VF_ASSERT(msn == 0 || msn == g_pre_lastMsn + 1, "c16.hs.only_next_msn_is_parsed");
    }
    /* RI-frag preserved (inductive step) */
    {
        int32 tot = 0, ok = 1, seen_end = 0, a, b;
        for (a = 0; a < NFR + 1; a++)
        {
            int32 oa = ssl->fragHeaders[a].offset, fa = ssl->fragHeaders[a].fragLen;
            if (oa == -1)
            {
                seen_end = 1;
                continue;
            }
            ok &= !seen_end;
            ok &= (fa > 0 && oa >= 0 && oa + fa <= (int32) ssl->fragLenStored);
            ok &= (ssl->fragHeaders[a].hsHeader != NULL);
            tot += fa;
            for (b = 0; b < NFR + 1; b++)
            {
                int32 ob = ssl->fragHeaders[b].offset, fb = ssl->fragHeaders[b].fragLen;
                if (b != a && ob != -1)
                {
                    ok &= (oa + fa <= ob || ob + fb <= oa);
                }
            }
        }
        if (ssl->fragTotal > 0)
        {
            VF_REACH("reassembling");
            VF_ASSERT(ok, "c08.hs.fragment_list_invariant_preserved");
            VF_ASSERT(tot == (int32) ssl->fragTotal && ssl->fragMessage != NULL, "c08.hs.fragment_total_is_sum");
        }
    }
#endif
    VF_REACH("end");
}
