/* supp_versions.c - C08.d: the supported_versions extension parser
 * (tls13ParseSupportedVersions, matrixssl/tls13DecodeExt.c) on an arbitrary
 * extension body that is an object of exactly VF_N bytes.
 * Decided: no access outside the body for any contents, the cursor ends at the
 * end of the body on success, the peer version list stays inside its array.
 */
#include "vf.h"
#include "matrixssl/matrixsslImpl.h"
#include "matrixssl/tls13DecodeExt.c"
#include "ssl_state.h"
#include "trace_stubs.h"

#ifndef VF_N
# define VF_N 7
#endif
static unsigned char B[VF_N];

VF_MAIN
{
    ssl_t *ssl = &S;
    const unsigned char *c = B;
    psSize_t rc;

    VF_HAVOC(S, ssl_t);
    ssl->peerSupportedVersionsPriorityLen = 0;
    ssl->err = SSL_ALERT_NONE;
    vf_bytes(B, VF_N);

    rc = tls13ParseSupportedVersions(ssl, &c, VF_N);

#if (VF_N % 2) == 0
    /* 1 length octet + an odd number of list octets: not a list of 2-octet versions */
    VF_ASSERT(ssl->err != SSL_ALERT_NONE, "c08.supported_versions_odd_list_refused");
#endif
    if (ssl->err == SSL_ALERT_NONE)
    {
#if (VF_N % 2) == 1
        VF_REACH("parsed");
#endif
        VF_ASSERT(c == B + VF_N && rc == VF_N, "c08.supported_versions_consumes_exactly_the_body");
        VF_ASSERT(ssl->peerSupportedVersionsPriorityLen <= TLS_MAX_SUPPORTED_VERSIONS, "c08.supported_versions_list_bounded");
    }
    else
    {
        VF_REACH("refused");
    }
    VF_REACH("end");
}
