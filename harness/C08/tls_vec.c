/* tls_vec.c - C08.d: the TLS variable-length vector primitive every TLS 1.3
 * message and extension parser is built on (psParseTlsVariableLengthVec,
 * core/src/psbuf.c), on an arbitrary buffer of exactly VF_N bytes, arbitrary
 * start offset and arbitrary <min..max> specification.
 * Decided: no access outside the buffer, and on success the length octets plus
 * the announced data lie inside [start, end) and the length respects min/max.
 */
#include "vf.h"
#include "core/coreApi.h"
#include "core/src/psbuf.c"
#include "trace_stubs.h"

#ifndef VF_N
# define VF_N 8
#endif
static unsigned char B[VF_N];

VF_MAIN
{
    psSizeL_t minLen = vf_u32(), maxLen, len = 0;
    uint8_t off = vf_u8(), k = vf_u8() & 3;
    int rc;

    vf_bytes(B, VF_N);
    VF_ASSUME(off <= VF_N);
    maxLen = (k == 0) ? 0 : (k == 1) ? (psSizeL_t) (1 + vf_u8() % 255) : (k == 2) ? (psSizeL_t) (256 + vf_u16() % 65280) : (psSizeL_t) (65536 + vf_u32() % 16711680);

    rc = psParseTlsVariableLengthVec(B + off, B + VF_N, minLen, maxLen, &len);

    if (rc >= 0)
    {
        VF_REACH("vector_accepted");
        VF_ASSERT((psSizeL_t) rc == (psSizeL_t) ((maxLen > 0) + (maxLen > 255) + (maxLen > 65535)), "c08.tls_vector_length_octets");
        VF_ASSERT((psSizeL_t) rc + len <= (psSizeL_t) (VF_N - off), "c08.tls_vector_data_inside_boundary");
        VF_ASSERT(len >= minLen && len <= maxLen, "c08.tls_vector_length_within_specification");
    }
    else
    {
        VF_REACH("vector_refused");
    }
    VF_REACH("end");
}
