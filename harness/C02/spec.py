# C02 - Delivered stream is an exact prefix of what the peer sent, under any attack
HARNESSES = [
    COMMON["aead"]("gcm12_open", 1, [(24, "quick"), (25, "quick"), (40, "quick"), (0, "thorough"), (16, "thorough")]),
    COMMON["aead"]("gcm13_open", 3, [(16, "quick"), (17, "quick"), (40, "quick")]),
    COMMON["dec12"]("cbc_unpad", ["C02"], COMMON["dec12_cases"](64, 40, dtls_only=("dtls10", "dtls12n")) + COMMON["dec12_cases"](96, 40, tier="thorough", dtls_only=("dtls10n", "dtls12"))),
    COMMON["dec13"]("tls13_inner", ["C02"], ns=((48, "quick"), (96, "thorough"))),
]
PROPERTY = dict(level='model_checking',
    claim='Record layer binding between the wire and the AEAD/HMAC primitives: nonce, AAD, ciphertext/tag ranges, sequence-number handling, CBC unpadding and MAC position, TLS 1.3 inner-plaintext stripping; any MAC/decrypt failure yields a fatal alert and no data. Primitive unforgeability is assumed.',
    bounds='record bodies 16..40 bytes (AEAD glue, enumerated), 64/40/48-byte buffers for the decoders',
    outside='ChaCha20-Poly1305 glue functions, plaintext lengths above the buffer bound, multi-record splicing beyond the sequence-number binding',
    explanation='Record layer binding between the wire and the AEAD/HMAC primitives: nonce, AAD, ciphertext/tag ranges, sequence-number handling, CBC unpadding and MAC position, TLS 1.3 inner-plaintext stripping; any MAC/decrypt failure yields a fatal alert and no data. Primitive unforgeability is assumed.',
    assumptions=[])
