# C02 - Delivered stream is an exact prefix of what the peer sent, under any attack
HARNESSES = [
    COMMON["dec12"]("cbc_unpad", ["C02"], COMMON["dec12_cases"](64, 40, dtls_only=("dtls10", "dtls12n")) + COMMON["dec12_cases"](96, 56, tier="thorough")),
    COMMON["dec13"]("tls13_inner", ["C02"], ns=((48, "quick"), (96, "thorough"))),
]
PROPERTY = dict(level="model_checking", explanation="", bounds="", outside="", assumptions=[])
