# C14 - Resumption only with this server's own unexpired, untampered session state
def CACHE(name, op, slots, tier="quick"):
    return dict(
        name=name, src="resume_by_id.c", checks=[],
        guards={"matrixssl/matrixssl.c": {"g_sessionTable": "g_sessionTableLock", "g_sessionChronList": "g_sessionTableLock"}},
        units=["matrixssl/hsNegotiateVersion.c"],
        functions=["matrixResumeSession", "matrixUpdateSession", "matrixClearSession", "psDiffMsecs", "psEncodeVersionMaj", "psEncodeVersionMin"],
        sources=["matrixssl/matrixssl.c", "core/osdep/POSIX/osdep.c"],
        assumptions=["session cache: table RI (id[0..3] == index, 0 <= inUse, inUse == 0 <=> on the chronological list); psGetTime returns an arbitrary CLOCK_MONOTONIC instant not before the entry's start time; mutex functions replaced by the lock ghost; slot index enumerated"],
        unwindset={"vf_is_held:/for \\(i = 0/": 5, "memcmp.0": 50},
        cases=[dict(name="op%d_slot%s" % (op, str(s).replace("-", "m")), tier=t, defs={"VF_OP": op, "VF_SLOT": s}) for s, t in slots],
    )


TICKET_GUARDS = {"->sessTickets": "g_sessTicketLock", "->hashkey": "g_sessTicketLock", "->symkey": "g_sessTicketLock",
                 "->inUse": "g_sessTicketLock"}


def TICKET(name, op):
    return dict(
        name=name, src="ticket.c", checks=[],
        guards={"matrixssl/matrixssl.c": TICKET_GUARDS},
        units=["matrixssl/hsNegotiateVersion.c"],
        functions=["matrixUnlockSessionTicket", "getTicketKeys", "matrixSslLoadSessionTicketKeys", "matrixSslDeleteSessionTicketKey", "matrixCreateSessionTicket", "matrixSessionTicketLen"],
        sources=["matrixssl/matrixssl.c"],
        assumptions=["ticket: HMAC-SHA256 / AES-CBC / sslGetCipherSpec / psGetTime / psGetPrngLocked / sslWritePad are stubs (MAC key and range logged, arbitrary tag and plaintext); key list of 0..2 keys; ticket bytes arbitrary; optional application callback returning an arbitrary verdict"],
        unwind=150, unwindset={"memcmp.0": 50, "vf_is_held:/for \\(i = 0/": 5},
        cases=[dict(name="op%d" % op, defs={"VF_OP": op})],
    )


REG = CACHE("register", 3, [])
REG["cases"] = [dict(name="op3_slot3_list%d" % l, defs={"VF_OP": 3, "VF_SLOT": 3, "VF_LIST": l}) for l in range(5)]

HARNESSES = [
    dict(name="diff_msecs", src="diff_msecs.c", checks=[], units=["core/osdep/POSIX/osdep.c"],
         functions=["psDiffMsecs"], sources=["core/osdep/POSIX/osdep.c"],
         assumptions=["diff_msecs: CLOCK_MONOTONIC instants with now >= then and seconds < 2^40"],
         cases=[dict(name="linux", defs={})]),
    CACHE("resume_by_id", 0, [(0, "quick"), (31, "quick"), (-1, "quick")] + [(s, "thorough") for s in range(1, 31)]),
    CACHE("invalidate", 1, [(5, "quick"), (-1, "thorough")]),
    CACHE("clear", 2, [(7, "quick"), (-1, "thorough")]),
    REG,
    TICKET("ticket_unlock", 0), TICKET("ticket_key_load", 1), TICKET("ticket_key_delete", 2), TICKET("ticket_create", 3),
]
PROPERTY = dict(level='model_checking',
    claim="Session-cache operations from an arbitrary table entry: resume succeeds only with the full 32-byte id of a valid, unexpired entry with matching version and EMS and installs exactly that entry's secret and suite; error invalidates; register/clear keep the table invariant; psDiffMsecs never underestimates the elapsed time. Session tickets: matrixUnlockSessionTicket accepts only a ticket of the exact length whose HMAC over name, IV and ciphertext verified under a loaded key with that name (or one the application callback supplied), of the same protocol version and within its lifetime, and installs the secret only then.",
    bounds='one table slot per query (slots 0, 31 and out-of-range quick; all 32 thorough); session tickets: key list of 0..2 keys, arbitrary 128-byte ticket, HMAC/AES as logging stubs (unlock accepts only when the MAC over the exact range under the named key matched; key load/delete keep the list well-formed; create seals with the first key)',
    outside='TLS 1.3 PSK binders, the resumption decision in parseClientHello, multi-step histories beyond the inductive step',
    explanation="Session-cache operations from an arbitrary table entry: resume succeeds only with the full 32-byte id of a valid, unexpired entry with matching version and EMS and installs exactly that entry's secret and suite; error invalidates; register/clear keep the table invariant; psDiffMsecs never underestimates the elapsed time.",
    assumptions=[])
