/* resume_by_id.c - C14.a/b (+ C20 lock discipline on the same build)
 *
 * Unit: the real matrixResumeSession / matrixUpdateSession / matrixClearSession
 * / matrixRegisterSession of matrixssl/matrixssl.c on the real static
 * g_sessionTable, with the real psDiffMsecs of core/osdep/POSIX/osdep.c.
 * Stubs: psGetTime (arbitrary monotonic instant), psLockMutex/psUnlockMutex
 * (lock ghost).  Every textual access to g_sessionTable / g_sessionChronList
 * is wrapped by VF_GUARD (derive.py) and must happen under g_sessionTableLock.
 *
 * VF_OP: 0 resume, 1 update, 2 clear, 3 register.   VF_SLOT: table slot the
 * presented id points to (concrete; -1 = any out-of-range index).
 */
#define NEED_PS_TIME_CONCRETE /* psTime_t internals (as core/osdep/POSIX/osdep.c does) */
#include "vf.h"
#include "matrixssl/matrixsslImpl.h"
#include "lock_ghost.h"
#include "matrixssl/matrixssl.c"
#include "ssl_state.h"
#include "trace_stubs.h"

#ifndef VF_SLOT
# define VF_SLOT 0
#endif
#ifndef VF_OP
# define VF_OP 0
#endif

static psTime_t g_now;
static int g_time_calls;
int32 psGetTime(psTime_t *t, void *userPtr)
{
    g_time_calls++;
    if (t != NULL)
    {
        *t = g_now;
    }
    return (int32) g_now.psTimeInternal.tv_sec;
}

#ifndef VF_REAL_DIFFMSECS
/* contract stub: the elapsed time in ms as an arbitrary int32 (the real
   function is decided against the exact value in the diff_msecs harness) */
static int32 g_diff;
static int g_diff_calls;
int32 psDiffMsecs(psTime_t then, psTime_t now, void *userPtr)
{
    g_diff_calls++;
    return g_diff;
}
#endif

static sslCipherSpec_t cipherA, cipherB;

static void arbitrary_time(psTime_t *t)
{
    int64_t s = (int64_t) vf_u64();
    int64_t ns = (int64_t) vf_u32();
    VF_ASSUME(s >= 0 && s < ((int64_t) 1 << 40));
    VF_ASSUME(ns >= 0 && ns < 1000000000L);
    t->psTimeInternal.tv_sec = s;
    t->psTimeInternal.tv_nsec = ns;
}

/* exact age in milliseconds, computed in 64 bits (the oracle) */
static int64_t age_ms(const psTime_t *then, const psTime_t *now)
{
    int64_t ns = ((int64_t) now->psTimeInternal.tv_sec - (int64_t) then->psTimeInternal.tv_sec) * 1000000000LL
        + ((int64_t) now->psTimeInternal.tv_nsec - (int64_t) then->psTimeInternal.tv_nsec);
    return ns / 1000000LL;
}

VF_MAIN
{
    ssl_t *ssl = &S;
    sslSessionEntry_t pre_e;
    ssl_t pre;
    int32 rc;
    uint32 idx;
    int other = (VF_SLOT == 0) ? 1 : 0;
    sslSessionEntry_t *e;

    VF_HAVOC(S, ssl_t);
    ssl->flags = vf_u32();
    ssl->sessionIdLen = vf_u8();
    vf_bytes(ssl->sessionId, SSL_MAX_SESSION_ID_SIZE);
    ssl->activeVersion = vf_version(0);
    ssl->extFlags.extended_master_secret = vf_bool();
    vf_bytes(ssl->sec.masterSecret, SSL_HS_MASTER_SIZE);
    vf_bytes(ssl->sec.serverRandom, SSL_HS_RANDOM_SIZE);
    ssl->cipher = vf_bool() ? &cipherA : &cipherB;
    ssl->userPtr = NULL;
    ssl->sid = NULL;

#if VF_SLOT >= 0
    /* the presented id selects slot VF_SLOT */
    ssl->sessionId[0] = (unsigned char) VF_SLOT;
    ssl->sessionId[1] = 0;
    ssl->sessionId[2] = 0;
    ssl->sessionId[3] = 0;
    e = &g_sessionTable[VF_SLOT];
    /* arbitrary entry content; RI of the table: id[0..3] == index,
       inUse >= 0, inUse == 0 <=> on the chronological list */
    vf_bytes(e->id, SSL_MAX_SESSION_ID_SIZE);
    e->id[0] = (unsigned char) VF_SLOT;
    e->id[1] = e->id[2] = e->id[3] = 0;
    vf_bytes(e->masterSecret, SSL_HS_MASTER_SIZE);
    {
        uint8_t k = vf_u8();
        VF_ASSUME(k < 3);
        e->cipher = (k == 0) ? NULL : (k == 1) ? &cipherA : &cipherB;
    }
    e->majVer = vf_u8();
    e->minVer = vf_u8();
    e->extendedMasterSecret = vf_bool();
    arbitrary_time(&e->startTime);
    e->inUse = vf_i32();
    VF_ASSUME(e->inUse >= 0 && e->inUse < 1000);
    DLListInit(&g_sessionChronList);
    g_sessionTable[other].id[0] = (unsigned char) other;
#ifdef VF_LIST
    /* list composition enumerated: 0 empty, 1 [e], 2 [other, e], 3 [other], 4 [e, other] */
    g_sessionTable[other].inUse = (VF_LIST >= 2) ? 0 : 1;
    VF_ASSUME((e->inUse == 0) == (VF_LIST == 1 || VF_LIST == 2 || VF_LIST == 4));
    if (VF_LIST == 4)
    {
        DLListInsertTail(&g_sessionChronList, &e->chronList);
    }
    if (VF_LIST >= 2)
    {
        DLListInsertTail(&g_sessionChronList, &g_sessionTable[other].chronList);
    }
    if (VF_LIST == 1 || VF_LIST == 2)
    {
        DLListInsertTail(&g_sessionChronList, &e->chronList);
    }
#else
    if (vf_bool())
    {
        DLListInsertTail(&g_sessionChronList, &g_sessionTable[other].chronList);
    }
    if (e->inUse == 0)
    {
        DLListInsertTail(&g_sessionChronList, &e->chronList);
    }
#endif
    pre_e = *e;
#else
    idx = ((uint32) ssl->sessionId[3] << 24) + (ssl->sessionId[2] << 16) + (ssl->sessionId[1] << 8) + ssl->sessionId[0];
    VF_ASSUME(idx >= SSL_SESSION_TABLE_SIZE);
    DLListInit(&g_sessionChronList);
    e = NULL;
#endif
#ifdef VF_REAL_DIFFMSECS
    arbitrary_time(&g_now);
# if VF_SLOT >= 0
    /* CLOCK_MONOTONIC: now is not before the entry's start time */
    VF_ASSUME(age_ms(&e->startTime, &g_now) >= 0);
# endif
#else
    g_diff = vf_i32();
    VF_ASSUME(g_diff >= 0); /* CLOCK_MONOTONIC */
#endif
    pre = S;
    (void) idx;

#if VF_OP == 0
    rc = matrixResumeSession(ssl);
# if VF_SLOT >= 0
    if (rc == PS_SUCCESS)
    {
        VF_REACH("resumed");
        VF_ASSERT(pre.flags & SSL_FLAGS_SERVER, "c14.resume_server_only");
        VF_ASSERT(pre_e.cipher != NULL, "c14.resume_entry_valid");
        VF_ASSERT(pre.sessionIdLen == SSL_MAX_SESSION_ID_SIZE, "c14.resume_full_length_id");
        VF_ASSERT(memcmp(pre_e.id, pre.sessionId, SSL_MAX_SESSION_ID_SIZE) == 0, "c14.resume_id_equal");
#ifdef VF_REAL_DIFFMSECS
        VF_ASSERT(age_ms(&pre_e.startTime, &g_now) <= SSL_SESSION_ENTRY_LIFE, "c14.resume_not_expired");
#else
        VF_ASSERT(g_diff_calls >= 1 && g_diff <= SSL_SESSION_ENTRY_LIFE, "c14.resume_not_expired");
#endif
        VF_ASSERT(pre_e.majVer == psEncodeVersionMaj(pre.activeVersion) &&
            pre_e.minVer == psEncodeVersionMin(pre.activeVersion), "c14.resume_same_version");
        VF_ASSERT((pre_e.extendedMasterSecret != 0) == (pre.extFlags.extended_master_secret != 0), "c14.resume_same_ems");
        VF_ASSERT(memcmp(ssl->sec.masterSecret, pre_e.masterSecret, SSL_HS_MASTER_SIZE) == 0, "c14.resume_installs_entry_secret");
        VF_ASSERT(ssl->cipher == pre_e.cipher, "c14.resume_installs_entry_suite");
        VF_ASSERT(e->inUse == pre_e.inUse + 1, "c14.resume_refcount");
    }
    else
    {
        VF_REACH("not_resumed");
        VF_ASSERT(memcmp(ssl->sec.masterSecret, pre.sec.masterSecret, SSL_HS_MASTER_SIZE) == 0 &&
            ssl->cipher == pre.cipher, "c14.no_resume_no_secret");
        VF_ASSERT(e->inUse == pre_e.inUse && memcmp(e->masterSecret, pre_e.masterSecret, SSL_HS_MASTER_SIZE) == 0 &&
            e->cipher == pre_e.cipher, "c14.no_resume_entry_untouched");
        VF_ASSERT(rc < 0, "c14.no_resume_is_error_code");
    }
# else
    VF_REACH("out_of_range");
    VF_ASSERT(rc != PS_SUCCESS, "c14.out_of_range_index_rejected");
    VF_ASSERT(vf_guard_hits == 0 || vf_bad_unguarded == 0, "c14.out_of_range_no_unlocked_access");
# endif
#elif VF_OP == 1
    rc = matrixUpdateSession(ssl);
# if VF_SLOT >= 0
    if ((pre.flags & SSL_FLAGS_SERVER) && pre.sessionIdLen != 0 && (pre.flags & SSL_FLAGS_ERROR))
    {
        unsigned char z[SSL_HS_MASTER_SIZE] = { 0 };
        VF_REACH("invalidated");
        VF_ASSERT(e->cipher == NULL && memcmp(e->masterSecret, z, SSL_HS_MASTER_SIZE) == 0, "c14.error_invalidates_entry");
        VF_ASSERT(rc < 0, "c14.error_update_fails");
    }
    else
    {
        VF_REACH("updated_or_rejected");
    }
    VF_ASSERT(e->inUse >= pre_e.inUse - 1 && e->inUse <= pre_e.inUse, "c14.update_refcount");
# else
    VF_REACH("out_of_range");
    VF_ASSERT(rc != PS_SUCCESS, "c14.out_of_range_index_rejected");
# endif
#elif VF_OP == 2
    {
        int rem = vf_bool();
        /* RI: an ssl that holds an id holds a reference */
# if VF_SLOT >= 0
        VF_ASSUME(e->inUse >= 1);
# endif
        rc = matrixClearSession(ssl, rem);
# if VF_SLOT >= 0
        if (rc == PS_SUCCESS)
        {
            VF_REACH("cleared");
            VF_ASSERT(e->inUse == pre_e.inUse - 1, "c14.clear_refcount");
            if (rem)
            {
                unsigned char z[SSL_HS_MASTER_SIZE] = { 0 };
                VF_ASSERT(e->cipher == NULL && memcmp(e->masterSecret, z, SSL_HS_MASTER_SIZE) == 0, "c14.remove_wipes_entry");
                VF_ASSERT(ssl->sessionIdLen == 0 && !(ssl->flags & SSL_FLAGS_RESUMED), "c14.remove_clears_ssl");
            }
        }
# else
        VF_REACH("out_of_range");
        VF_ASSERT(rc != PS_SUCCESS, "c14.out_of_range_index_rejected");
# endif
    }
#elif VF_OP == 3
    {
        /* register: takes the oldest entry that is not in use */
        int was_empty = DLListIsEmpty(&g_sessionChronList);
        sslSessionEntry_t pre_o = g_sessionTable[other];
        ssl->sessionIdLen = 0;
        rc = matrixRegisterSession(ssl);
        if (rc >= 0 && (pre.flags & SSL_FLAGS_SERVER))
        {
#if VF_LIST != 0
            VF_REACH("registered");
#endif
            VF_ASSERT(!was_empty, "c14.register_needs_free_entry");
            VF_ASSERT(rc == VF_SLOT || rc == other, "c14.register_returns_listed_slot");
            VF_ASSERT((rc == VF_SLOT ? pre_e.inUse : pre_o.inUse) == 0, "c14.register_never_takes_entry_in_use");
            VF_ASSERT(g_sessionTable[rc].inUse == 1, "c14.register_refcount");
            VF_ASSERT(ssl->sessionIdLen == SSL_MAX_SESSION_ID_SIZE &&
                memcmp(ssl->sessionId, g_sessionTable[rc].id, SSL_MAX_SESSION_ID_SIZE) == 0, "c14.register_id_is_entry_id");
            VF_ASSERT(g_sessionTable[rc].id[0] == rc && g_sessionTable[rc].id[1] == 0 &&
                g_sessionTable[rc].id[2] == 0 && g_sessionTable[rc].id[3] == 0, "c14.register_keeps_index_in_id");
            VF_ASSERT(memcmp(ssl->sec.masterSecret, pre.sec.masterSecret, SSL_HS_MASTER_SIZE) == 0, "c14.register_keeps_ssl_secret");
            {
                int j, same = 1;
                for (j = 0; j < SSL_HS_MASTER_SIZE; j++)
                {
                    same &= (g_sessionTable[rc].masterSecret[j] == ssl->sec.masterSecret[j]);
                }
                VF_ASSERT(same, "c14.register_stores_this_secret");
            }
            VF_ASSERT(g_sessionTable[rc].cipher == pre.cipher, "c14.register_stores_this_suite");
        }
        else
        {
            VF_REACH("not_registered");
            if (was_empty && (pre.flags & SSL_FLAGS_SERVER))
            {
                VF_ASSERT(rc == PS_LIMIT_FAIL, "c14.register_full_table_fails");
            }
        }
    }
#endif
    VF_ASSERT_LOCK_DISCIPLINE("c20.session_cache");
    VF_REACH("end");
}
