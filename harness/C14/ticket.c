/* ticket.c - C14.d (ticket unlock) and C20 (ticket-key list lock discipline).
 * Unit: the real matrixUnlockSessionTicket, getTicketKeys,
 * matrixSslLoadSessionTicketKeys, matrixSslDeleteSessionTicketKey,
 * matrixCreateSessionTicket, matrixSessionTicketLen (matrixssl/matrixssl.c).
 * Stubs with ghost state: HMAC-SHA256 (key, input range; arbitrary tag),
 * AES-CBC (in-place, arbitrary plaintext), sslGetCipherSpec, psGetTime,
 * psGetPrngLocked, mutex functions (lock ghost).  Every use of
 * keys->sessTickets and of the key material / inUse flag of a list node is
 * wrapped by VF_GUARD(…, g_sessTicketLock) (derive.py).
 *  VF_OP 0 unlock, 1 load, 2 delete, 3 create
 */
#define NEED_PS_TIME_CONCRETE
#include "vf.h"
#include "matrixssl/matrixsslImpl.h"
#include "lock_ghost.h"
#include "matrixssl/matrixssl.c"
#include "ssl_state.h"
#include "trace_stubs.h"

#define TLEN 128 /* matrixSessionTicketLen(): 57 -> 64 encrypted + 16 name + 16 IV + 32 MAC */

static int g_hmac_init, g_hmac_upd, g_hmac_fin, g_aes_dec, g_aes_enc;
static const unsigned char *g_hmac_key, *g_hmac_data;
static uint32_t g_hmac_len, g_hmac_keylen;
static unsigned char g_tag[32];
static const unsigned char *g_aes_key, *g_aes_iv;
static int g_secret_written_before_mac;
static sslSessionId_t *g_sidp;
static unsigned char sid_secret0[SSL_HS_MASTER_SIZE];

int32_t psHmacSha256Init(psHmacSha256_t *ctx, const unsigned char *key, psSize_t keyLen)
{
    g_hmac_init++;
    g_hmac_key = key;
    g_hmac_keylen = keyLen;
    return PS_SUCCESS;
}
void psHmacSha256Update(psHmacSha256_t *ctx, const unsigned char *buf, uint32_t len)
{
    g_hmac_upd++;
    g_hmac_data = buf;
    g_hmac_len = len;
}
void psHmacSha256Final(psHmacSha256_t *ctx, unsigned char hash[SHA256_HASHLEN])
{
    int i;
    g_hmac_fin++;
    for (i = 0; i < 32; i++)
    {
        g_tag[i] = vf_u8();
        hash[i] = g_tag[i];
    }
}
int32_t psAesInitCBC(psAesCbc_t *ctx, const unsigned char IV[AES_IVLEN], const unsigned char key[AES_MAXKEYLEN], uint8_t keylen, uint32_t flags)
{
    g_aes_key = key;
    g_aes_iv = IV;
    return PS_SUCCESS;
}
void psAesDecryptCBC(psAesCbc_t *ctx, const unsigned char *ct, unsigned char *pt, uint32_t len)
{
    uint32_t i;
    g_aes_dec++;
    for (i = 0; i < len && i < 64; i++)
    {
        pt[i] = vf_u8(); /* arbitrary plaintext */
    }
}
void psAesEncryptCBC(psAesCbc_t *ctx, const unsigned char *pt, unsigned char *ct, uint32_t len)
{
    g_aes_enc++;
}
void psAesClearCBC(psAesCbc_t *ctx)
{
}
static sslCipherSpec_t cipherA;
const sslCipherSpec_t *sslGetCipherSpec(const ssl_t *ssl, uint16_t id)
{
    return vf_bool() ? &cipherA : NULL;
}
static uint32_t g_now;
int32 psGetTime(psTime_t *t, void *userPtr)
{
    return (int32) g_now;
}
int32_t psGetPrngLocked(unsigned char *bytes, psSize_t size, void *userPtr)
{
    return size;
}
errno_t memset_s(void *s, rsize_t smax, int c, rsize_t n)
{
    rsize_t i;
    for (i = 0; i < n && i < smax && i < 64; i++)
    {
        ((unsigned char *) s)[i] = (unsigned char) c;
    }
    return 0;
}
int32 sslWritePad(unsigned char *p, unsigned char padLen)
{
    int i;
    for (i = 0; i < padLen && i < 16; i++)
    {
        p[i] = padLen;
    }
    return padLen;
}
static int g_cb_calls, g_cb_locked;
static int32 ticket_cb(void *keys, unsigned char name[16], short found)
{
    g_cb_calls++;
    if (vf_nheld > 0)
    {
        g_cb_locked = 1; /* application code must not run under the library lock */
    }
    return vf_bool() ? 0 : -1;
}

static sslKeys_t K;
static unsigned char ticket[TLEN];

static psSessionTicketKeys_t *new_key(void)
{
    psSessionTicketKeys_t *k = (psSessionTicketKeys_t *) malloc(sizeof(*k));
    VF_ASSUME(k != NULL);
    memset(k, 0, sizeof(*k));
    vf_bytes(k->name, 16);
    vf_bytes(k->hashkey, 32);
    vf_bytes(k->symkey, 32);
    k->hashkeyLen = 32;
    k->symkeyLen = vf_bool() ? 16 : 32;
    k->inUse = vf_bool();
    k->next = NULL;
    return k;
}

VF_MAIN
{
    ssl_t *ssl = &S;
    psSessionTicketKeys_t *k0 = NULL, *k1 = NULL;
    int32 rc;
    int nkeys = vf_u8() % 3, i;
    int have_cb = vf_bool();

    VF_HAVOC(S, ssl_t);
    memset(&K, 0, sizeof(K));
    if (nkeys >= 1)
    {
        k0 = new_key();
        K.sessTickets = k0;
    }
    if (nkeys == 2)
    {
        k1 = new_key();
        k0->next = k1;
    }
    K.ticket_cb = have_cb ? ticket_cb : NULL;
    ssl->keys = &K;
    ssl->activeVersion = vf_version(0);
    ssl->extFlags.require_extended_master_secret = vf_bool();
    ssl->extFlags.extended_master_secret = vf_bool();
    ssl->userPtr = NULL;
    VF_HAVOC(S_sid, sslSessionId_t);
    vf_bytes(S_sid.masterSecret, SSL_HS_MASTER_SIZE);
    memcpy(sid_secret0, S_sid.masterSecret, SSL_HS_MASTER_SIZE);
    ssl->sid = &S_sid;
    ssl->cipher = &cipherA;
    vf_bytes(ssl->sec.masterSecret, SSL_HS_MASTER_SIZE);
    g_now = vf_u32();
    vf_bytes(ticket, TLEN);

#if VF_OP == 0
    {
        int32 inLen = vf_bool() ? TLEN : (int32) vf_u8();
        unsigned char trailer[32];
        memcpy(trailer, ticket + TLEN - 32, 32);
        rc = matrixUnlockSessionTicket(ssl, ticket, inLen);
        if (rc == PS_SUCCESS)
        {
            int named = 0, same = 1;
            uint32_t ts;
            VF_REACH("ticket_accepted");
            VF_ASSERT(inLen == TLEN, "c14.ticket_exact_length");
            /* the key that authenticated the ticket is one of this server's */
            VF_ASSERT(g_hmac_init == 1 && g_hmac_upd == 1 && g_hmac_fin == 1, "c14.ticket_one_mac");
            if (k0 != NULL && g_hmac_key == k0->hashkey)
            {
                named = (memcmp(k0->name, ticket, 16) == 0);
            }
            if (k1 != NULL && g_hmac_key == k1->hashkey)
            {
                named = (memcmp(k1->name, ticket, 16) == 0);
            }
            VF_ASSERT(named || (have_cb && g_cb_calls >= 1), "c14.ticket_key_is_ours_and_named");
            VF_ASSERT(g_hmac_data == ticket && g_hmac_len == TLEN - 32, "c14.ticket_mac_covers_name_iv_ciphertext");
            for (i = 0; i < 32; i++)
            {
                same &= (g_tag[i] == trailer[i]);
            }
            VF_ASSERT(same, "c14.ticket_mac_equal");
            /* version, lifetime */
            VF_ASSERT(ticket[32] == psEncodeVersionMaj(ssl->activeVersion) && ticket[33] == psEncodeVersionMin(ssl->activeVersion),
                "c14.ticket_same_version");
            ts = ((uint32_t) ticket[32 + 5 + 48] << 24) | ((uint32_t) ticket[32 + 5 + 49] << 16) |
                ((uint32_t) ticket[32 + 5 + 50] << 8) | ticket[32 + 5 + 51];
            VF_ASSERT((uint32_t) (g_now - ts) <= SSL_SESSION_ENTRY_LIFE / 1000, "c14.ticket_not_expired");
            VF_ASSERT(memcmp(S_sid.masterSecret, ticket + 32 + 5, SSL_HS_MASTER_SIZE) == 0, "c14.ticket_secret_installed");
        }
        else
        {
            int same = 1;
            VF_REACH("ticket_refused");
            /* a ticket whose MAC does not verify leaves the session secret alone */
            for (i = 0; i < 32; i++)
            {
                same &= (g_tag[i] == trailer[i]);
            }
            if (g_hmac_fin == 0 || !same)
            {
                VF_ASSERT(memcmp(S_sid.masterSecret, sid_secret0, SSL_HS_MASTER_SIZE) == 0, "c14.ticket_bad_mac_no_secret");
            }
        }
        /* the key is released again */
        if (k0 != NULL && !(have_cb))
        {
            VF_ASSERT(rc != PS_SUCCESS || (k0->inUse == 0 || g_hmac_key != k0->hashkey), "c14.ticket_key_released");
        }
        VF_ASSERT(!g_cb_locked, "c20.ticket_callback_outside_lock");
        VF_ASSERT(vf_bad_unguarded == 0, "c20.ticket_keys.shared_access_under_lock");
        VF_ASSERT(vf_bad_relock == 0 && vf_bad_nested == 0 && vf_bad_unlock == 0 && vf_nheld == 0, "c20.ticket_keys.lock_balance");
        VF_ASSERT(vf_critical_sections <= (have_cb ? 2 : 1), "c20.ticket_keys.single_critical_section");
    }
#elif VF_OP == 1
    {
        unsigned char name[16], sym[32], hk[32];
        short sl = (short) vf_u16(), hl = (short) vf_u16();
        vf_bytes(name, 16);
        vf_bytes(sym, 32);
        vf_bytes(hk, 32);
        rc = matrixSslLoadSessionTicketKeys(&K, name, sym, sl, hk, hl);
        if (rc == PS_SUCCESS)
        {
            psSessionTicketKeys_t *last = K.sessTickets;
            int n = 1;
            VF_REACH("key_loaded");
            VF_ASSERT((sl == 16 || sl == 32) && hl == 32, "c14.ticket_key_sizes");
            VF_ASSUME(last != NULL);
            for (i = 0; i < 3 && last->next != NULL; i++)
            {
                last = last->next;
                n++;
            }
            VF_ASSERT(n == nkeys + 1 && memcmp(last->name, name, 16) == 0 && last->inUse == 0, "c14.ticket_key_appended");
        }
        VF_ASSERT_LOCK_DISCIPLINE("c20.ticket_keys");
    }
#elif VF_OP == 2
    {
        unsigned char name[16];
        vf_bytes(name, 16);
        rc = matrixSslDeleteSessionTicketKey(&K, name);
        if (rc == PS_SUCCESS)
        {
            VF_REACH("key_deleted");
            /* never a key that is in use by a concurrent unlock */
            VF_ASSERT(nkeys >= 1, "c14.ticket_delete_existing");
        }
        VF_ASSERT_LOCK_DISCIPLINE("c20.ticket_keys");
    }
#else
    {
        static unsigned char out[TLEN + 8];
        int32 outLen = vf_bool() ? (int32) sizeof(out) : (int32) vf_u8();
        VF_ASSUME(nkeys >= 1); /* tickets are only issued when a key is loaded */
        rc = matrixCreateSessionTicket(ssl, out, &outLen);
        if (rc == PS_SUCCESS)
        {
            VF_REACH("ticket_created");
            VF_ASSERT(outLen == TLEN + 6, "c14.ticket_created_length");
            VF_ASSERT(memcmp(out + 6, k0->name, 16) == 0 && g_hmac_key == k0->hashkey && g_aes_key == k0->symkey,
                "c14.ticket_sealed_with_first_key");
            VF_ASSERT(g_hmac_data == out + 6 && g_hmac_len == TLEN - 32, "c14.ticket_created_mac_range");
        }
        VF_ASSERT_LOCK_DISCIPLINE("c20.ticket_keys");
    }
#endif
    VF_REACH("end");
}
