/* diff_msecs.c - C14 (expiry arithmetic): the real psDiffMsecs of
 * core/osdep/POSIX/osdep.c against the exact elapsed time, for every pair of
 * CLOCK_MONOTONIC instants (now >= then, seconds < 2^40).
 *
 * The session cache and the ticket code compare the result with lifetimes of
 * one day; an entry must never look younger than it is:
 *      exact_ms > LIFE  =>  psDiffMsecs(then, now) > LIFE
 * and the result is exact whenever it fits the int32 return type.
 */
#define NEED_PS_TIME_CONCRETE
#include "vf.h"
#include "core/coreApi.h"
#include "core/osdep/include/osdep.h"

#define LIFE_MS (86400 * 1000)

VF_MAIN
{
    psTime_t then, now;
    int64_t s0 = (int64_t) vf_u64(), s1 = (int64_t) vf_u64();
    int64_t n0 = (int64_t) vf_u32(), n1 = (int64_t) vf_u32();
    int64_t dsec, dnsec;
    int32 d;
    int expired;

    VF_ASSUME(s0 >= 0 && s0 < ((int64_t) 1 << 40) && s1 >= 0 && s1 < ((int64_t) 1 << 40));
    VF_ASSUME(n0 >= 0 && n0 < 1000000000L && n1 >= 0 && n1 < 1000000000L);
    VF_ASSUME(s1 > s0 || (s1 == s0 && n1 >= n0));   /* monotonic clock */
    memset(&then, 0, sizeof(then));
    memset(&now, 0, sizeof(now));
    then.psTimeInternal.tv_sec = s0;
    then.psTimeInternal.tv_nsec = n0;
    now.psTimeInternal.tv_sec = s1;
    now.psTimeInternal.tv_nsec = n1;

    d = psDiffMsecs(then, now, NULL);

    /* exact elapsed time without division: (dsec, dnsec), 0 <= dnsec < 1e9 */
    dsec = s1 - s0;
    dnsec = n1 - n0;
    if (dnsec < 0)
    {
        dsec--;
        dnsec += 1000000000L;
    }
    /* exact_ms = dsec*1000 + floor(dnsec/1e6) > LIFE_MS  <=>  ... */
    expired = (dsec > 86400) || (dsec == 86400 && dnsec >= 1000000L);
    if (expired)
    {
        VF_REACH("expired");
        VF_ASSERT(d > LIFE_MS, "c14.elapsed_time_never_underestimated");
    }
    else
    {
        VF_REACH("fresh");
        VF_ASSERT(d >= 0 && d <= LIFE_MS, "c14.elapsed_time_fresh_range");
    }
    VF_REACH("end");
}
