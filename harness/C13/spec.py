# C13 - Big-integer arithmetic is mathematically exact for all operands
def LIN(name, op, maxu, aliases, tier="quick", extra=None):
    cases = []
    for ua in range(0, maxu + 1):
        for ub in range(0, maxu + 1):
            for al in aliases:
                d = {"VF_OP": op, "VF_UA": ua, "VF_UB": ub, "VF_ALIAS": al}
                d.update(extra or {})
                cases.append(dict(name="a%d_b%d_al%d" % (ua, ub, al), tier=tier, defs=d))
    return dict(
        name=name, src="linear_ops.c", checks=COMMON["MEMCHECKS"],
        functions=["pstm_add", "s_pstm_add", "pstm_sub", "pstm_sub_s", "pstm_cmp", "pstm_cmp_mag", "pstm_mul_2", "pstm_div_2",
                   "pstm_lshd", "pstm_rshd", "pstm_copy", "pstm_clamp"],
        sources=["crypto/math/pstm.c", "crypto/math/pstm.h"],
        assumptions=["linear_ops: operands are clamped pstm_int values (top digit non-zero, zero non-negative) with capacity 8 digits so that no reallocation happens; digit counts enumerated, digit values arbitrary 64-bit; reference = ripple-carry arithmetic on digit arrays with unsigned __int128 intermediates",
                     "front-end fidelity: pstm_word (__attribute__((mode(TI)))) rewritten to unsigned __int128 in the derived tree because CBMC ignores the mode attribute"],
        unwind=12,
        cases=cases,
    )


HARNESSES = [
    LIN("add", 1, 3, (0, 1, 2)),
    LIN("sub", 2, 3, (0, 1, 2)),
    LIN("sub_s", 3, 3, (0,)),
    LIN("cmp", 4, 3, (0,)),
    LIN("mul_2", 5, 3, (0, 1)),
    LIN("div_2", 8, 3, (0, 1)),
    LIN("shift_digits", 6, 3, (0,), extra={"VF_SH": 1}),
    LIN("div_2d", 9, 3, (0, 1)),
]
def MUL(name, op, sizes, tier_of):
    cases = []
    for (ua, ub, al) in sizes:
        cases.append(dict(name="a%d_b%d_al%d" % (ua, ub, al), tier=tier_of(ua, ub),
                          defs={"VF_OP": op, "VF_UA": ua, "VF_UB": ub, "VF_ALIAS": al, "VF_MUL_UF": None}))
    return dict(
        name=name, src="mul_sqr.c", checks=COMMON["MEMCHECKS"],
        functions=["pstm_mul_comba", "pstm_mul_comba_gen", "pstm_sqr_comba", "pstm_sqr_comba_gen", "pstm_clamp",
                   "asm kernels MULADD / SQRADD / SQRADD2 / SQRADDSC / SQRADDAC / SQRADDDB (x86-64, via asm2c)"],
        sources=["crypto/math/pstm_mul_comba.c", "crypto/math/pstm_sqr_comba.c", "crypto/math/pstm.c"],
        assumptions=["mul_sqr: the 64x64->128 product of mulq is an uninterpreted symmetric function shared by implementation and schoolbook reference (structural exactness; sound for the real product); inline assembly translated by vf/asm2c.py (mov/mul/add/adc/xor with explicit carry flag); operands <= 3 digits (thorough: 4), capacity 8, scratch buffer supplied by the caller"],
        unwind=12,
        cases=cases,
    )


_mul_sizes = [(ua, ub, al) for ua in range(0, 4) for ub in range(0, 4) for al in (0, 1, 2) if al == 0 or (ua, ub) in ((2, 2), (1, 2), (2, 1))]
_sqr_sizes = [(ua, 0, al) for ua in range(0, 4) for al in (0, 1) if al == 0 or ua == 2]
MULH = MUL("mul_comba", 1, _mul_sizes, lambda ua, ub: "quick" if ua * ub <= 4 else "thorough")
SQRH = MUL("sqr_comba", 2, _sqr_sizes, lambda ua, ub: "quick" if ua <= 2 else "thorough")

DIVH = LIN("div", 10, 2, (0,), extra={"VF_QBITS": 3})
DIVQ = LIN("div_small", 10, 1, (0,), extra={"VF_QBITS": 2})   # quick: quotients below 2^3
DIVQ["cases"] = [c for c in DIVQ["cases"] if c["defs"]["VF_UB"] == 1 and c["defs"]["VF_UA"] == 1]
DIVQ["unwind"] = 10
DIVQ["unwindset"] = {"pstm_div:/while \\(n-- >= 0\\)/": 4, "vf_harness:/for \\(k = 0/": 5, "pstm_count_bits:/./": 66}
DIVH["cases"] = [c for c in DIVH["cases"] if c["defs"]["VF_UB"] >= 1 and c["defs"]["VF_UA"] >= c["defs"]["VF_UB"]]
for _c in DIVH["cases"]:
    _c["tier"] = "thorough"
DIVH["cap_s"] = 9000
DIVH["unwind"] = 10
DIVH["unwindset"] = {"pstm_div:/while \\(n-- >= 0\\)/": 5, "vf_harness:/for \\(k = 0/": 6, "pstm_count_bits:/./": 66}
MODH = LIN("mod", 10, 2, (0,), extra={"VF_QBITS": 3, "VF_MOD": 1})
MODH["cases"] = [c for c in MODH["cases"] if c["defs"]["VF_UB"] >= 1 and c["defs"]["VF_UA"] >= c["defs"]["VF_UB"]]
for _c in MODH["cases"]:
    _c["tier"] = "thorough"   # two pstm_div calls per query: no verdict within 25 min (quick cap)
MODH["cap_s"] = 5400
MODH["unwind"] = 10
MODH["unwindset"] = {"pstm_div:/while \\(n-- >= 0\\)/": 5, "vf_harness:/for \\(k = 0/": 6, "pstm_count_bits:/./": 66}
for _h in HARNESSES[4:]:  # one-operand operations
    _h["cases"] = [c for c in _h["cases"] if c["defs"]["VF_UB"] == 0]
# pstm_sub_s precondition |a| >= |b| needs used(b) <= used(a)
HARNESSES[2]["cases"] = [c for c in HARNESSES[2]["cases"] if c["defs"]["VF_UB"] <= c["defs"]["VF_UA"]]
HARNESSES += [MULH, SQRH]
MODW = dict(
    name="mod_wrap", src="mod_wrap.c", checks=COMMON["MEMCHECKS"],
    renames={"crypto/math/pstm.c": ["pstm_div"]},
    functions=["pstm_mod", "pstm_add", "s_pstm_add", "pstm_sub_s", "pstm_exch", "pstm_init_size", "pstm_clear"], sources=["crypto/math/pstm.c"],
    assumptions=["mod_wrap: pstm_div is a contract stub (arbitrary remainder with |r| < |b| and the sign of a) - the contract the div harness decides; a of 2 digits, b of 1..2 digits, all signs"],
    undefined_ok="*", unwind=12, unwindset={"memmove:/for \\(i = 0/": 66, "realloc:/for \\(i = 0/": 66, "calloc:/for/": 66},
    cases=[dict(name="signs", defs={})])
# MODH (pstm_mod + a second pstm_div call per query) gave no verdict in 25 min even for 1x1 digits;
# it is replaced by MODW: pstm_mod over the pstm_div contract that DIVH decides
HARNESSES += [DIVQ, DIVH, MODW]

PROPERTY = dict(level='model_checking',
    claim='pstm add/sub/sub_s/cmp/mul_2/div_2/div_2d (quotient and remainder, every shift count, c aliasing a)/lshd/rshd/copy and pstm_div (a = q*b + r, |r| < |b|, signs; quotients below 2^3 quick, 2^4 thorough) equal an independent ripple-carry reference for all 64-bit digit values, all signs, output aliasing; comba multiplication and squaring over the asm2c-translated x86-64 kernels equal schoolbook multiplication with the 64x64 product as an uninterpreted symmetric function; pstm_mod returns the residue with the sign of the modulus (or zero) for every sign combination, given an exact pstm_div (contract stub).',
    bounds='operands <= 3 digits (mul/sqr quick: <= 2x2 / 2; thorough 3x3 / 3; 4-digit squaring gave no verdict in 60 min), capacity 8 digits',
    outside='pstm_div beyond quotients of 4 bits and 2-digit operands (the per-bit loop costs ~100 s of solver time per quotient bit), Montgomery reduction, exptmod, invmod, larger operand sizes, the unrolled 16/32-digit variants, non-x86-64 kernels',
    explanation='pstm add/sub/sub_s/cmp/mul_2/div_2/lshd/rshd/copy and pstm_div (a = q*b + r, |r| < |b|, signs; quotients below 2^3 quick, 2^4 thorough) equal an independent ripple-carry reference for all 64-bit digit values, all signs, output aliasing; comba multiplication and squaring over the asm2c-translated x86-64 kernels equal schoolbook multiplication with the 64x64 product as an uninterpreted symmetric function; pstm_mod returns the residue with the sign of the modulus (or zero) for every sign combination, given an exact pstm_div (contract stub).',
    assumptions=[])
