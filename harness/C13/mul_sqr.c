/* mul_sqr.c - C13.b: the real pstm_mul_comba / pstm_sqr_comba (generic comba
 * loops over the x86-64 assembly kernels, translated statement by statement
 * by asm2c) against row-wise schoolbook multiplication.
 *
 * Under CBMC the 64x64->128 product inside `mulq` is an uninterpreted,
 * symmetric function pair (VF_MUL_UF) shared by implementation and
 * reference: equality under every interpretation of the product implies
 * equality for the real product (the converse is not needed).  What is
 * decided is therefore the *structure*: which digit pairs are multiplied,
 * into which column each product goes, and that no carry is lost.
 * Natively VF_MUL64 is the true product, so replays are exact arithmetic.
 *
 * VF_OP 1: mul (VF_UA x VF_UB digits), 2: sqr (VF_UA digits);
 * VF_ALIAS 0: C distinct, 1: C == A, 2: C == B.
 */
#include "vf.h"
#include "crypto/math/pstm.c"
#include "crypto/math/pstm_mul_comba.c"
#include "crypto/math/pstm_sqr_comba.c"
#include "trace_stubs.h"

#ifndef VF_UA
# define VF_UA 2
#endif
#ifndef VF_UB
# define VF_UB 2
#endif
#ifndef VF_ALIAS
# define VF_ALIAS 0
#endif
#define ND 8

static pstm_digit da[ND], db[ND], dc[ND], scratch[2 * ND];
static pstm_int A, Bv, Cv;

static void mk(pstm_int *x, pstm_digit *dp, int used)
{
    int i;
    for (i = 0; i < ND; i++)
    {
        dp[i] = (i < used) ? vf_u64() : 0;
    }
    x->dp = dp;
    x->pool = NULL;
    x->alloc = ND;
    x->used = (uint16_t) used;
    x->sign = (used > 0 && vf_bool()) ? PSTM_NEG : PSTM_ZPOS;
    if (used > 0)
    {
        VF_ASSUME(dp[used - 1] != 0);
    }
}

static void ref_accumulate(uint64_t *acc, int col, uint64_t v)
{
    int k;
    unsigned __int128 s = (unsigned __int128) acc[col] + v;
    acc[col] = (uint64_t) s;
    for (k = col + 1; k < ND; k++)
    {
        s = (unsigned __int128) acc[k] + (uint64_t) (s >> 64);
        acc[k] = (uint64_t) s;
    }
}

VF_MAIN
{
    uint64_t ra[ND], rb[ND], acc[ND];
    pstm_int *a = &A, *b = &Bv, *c = &Cv;
    int i, j, same = 1, top = 0, sa, sb;
    int32_t rc;

    mk(&A, da, VF_UA);
    mk(&Bv, db, VF_UB);
    mk(&Cv, dc, 1);
#if VF_ALIAS == 1
    c = a;
#elif VF_ALIAS == 2
    c = b;
#endif
    for (i = 0; i < ND; i++)
    {
        ra[i] = da[i];
        rb[i] = (VF_OP == 2) ? da[i] : db[i];
        acc[i] = 0;
    }
    sa = a->sign;
    sb = (VF_OP == 2) ? a->sign : b->sign;

#if VF_OP == 1
    rc = pstm_mul_comba(NULL, a, b, c, scratch, sizeof(scratch));
#else
    rc = pstm_sqr_comba(NULL, a, c, scratch, sizeof(scratch));
#endif
    VF_ASSERT(rc == PS_SUCCESS, "c13.mul_ok");

    /* schoolbook over the same product function */
    for (i = 0; i < VF_UA; i++)
    {
        for (j = 0; j < ((VF_OP == 2) ? VF_UA : VF_UB); j++)
        {
            uint64_t lo, hi;
            VF_MUL64(ra[i], rb[j], lo, hi);
            ref_accumulate(acc, i + j, lo);
            ref_accumulate(acc, i + j + 1, hi);
        }
    }
    for (i = 0; i < ND; i++)
    {
        uint64_t ci = (i < c->used) ? c->dp[i] : 0;
        same &= (ci == acc[i]);
        if (acc[i] != 0)
        {
            top = i + 1;
        }
    }
    VF_ASSERT(same, "c13.product_exact");
    VF_ASSERT(c->used == top, "c13.product_clamped");
    if (top > 0)
    {
        VF_ASSERT(c->sign == ((VF_OP == 2) ? PSTM_ZPOS : (sa ^ sb)), "c13.product_sign");
    }
    VF_ASSERT(c->used <= c->alloc && c->alloc == ND, "c13.product_no_overrun");
    VF_REACH("end");
}
