/* mod_wrap.c - C13: pstm_mod is the mathematical residue for every sign
 * combination, given an exact truncated division.
 * Unit: the real pstm_mod (crypto/math/pstm.c) with the real pstm_add,
 * pstm_exch, pstm_init_size, pstm_clear.  pstm_div is a contract stub: it
 * returns an arbitrary remainder r0 with |r0| < |b| and the sign of a (zero is
 * non-negative) - the contract the `div` harness decides for the real
 * function.  Decided: the result is r0 when r0 == 0 or sign(r0) == sign(b),
 * and r0 + b otherwise, i.e. the unique value congruent to a with the sign of
 * b (or zero) and magnitude below |b|.
 */
#include "vf.h"
#define VF_HEAP_SLOT 64
#include "heap_model.h"
#include "crypto/cryptoImpl.h"
#undef MIN_RSA_BITS
#define MIN_RSA_BITS 128
static int32_t pstm_div_contract(psPool_t *pool, const pstm_int *a, const pstm_int *b, pstm_int *c, pstm_int *d);
#include "crypto/math/pstm.c"
#include "trace_stubs.h"

#define ND 4
static pstm_digit da[ND], db_[ND], r0d[ND];
static pstm_int A, Bv, C;
static int g_r0_used, g_r0_neg, g_div_calls;

int32_t pstm_div(psPool_t *pool, const pstm_int *a, const pstm_int *b, pstm_int *c, pstm_int *d)
{
    int i;
    g_div_calls++;
    VF_ASSERT(c == NULL && d != NULL && a == &A && b == &Bv, "c13.mod_asks_division_for_the_remainder_only");
    if (d->alloc < ND)
    {
        return PS_MEM_FAIL;
    }
    for (i = 0; i < ND; i++)
    {
        d->dp[i] = (i < g_r0_used) ? r0d[i] : 0;
    }
    d->used = (uint16_t) g_r0_used;
    d->sign = g_r0_neg ? PSTM_NEG : PSTM_ZPOS;
    return PSTM_OKAY;
}

static void mk(pstm_int *x, pstm_digit *dp, int used, int neg)
{
    int i;
    for (i = 0; i < ND; i++)
    {
        dp[i] = (i < used) ? vf_u64() : 0;
    }
    x->dp = dp;
    x->pool = NULL;
    x->alloc = ND;
    x->used = (uint16_t) used;
    x->sign = (used > 0 && neg) ? PSTM_NEG : PSTM_ZPOS;
    if (used > 0)
    {
        VF_ASSUME(dp[used - 1] != 0);
    }
}
/* magnitude compare of two clamped digit arrays */
static int cmp_mag(const pstm_digit *x, int ux, const pstm_digit *y, int uy)
{
    int i;
    if (ux != uy)
    {
        return ux > uy ? 1 : -1;
    }
    for (i = ND - 1; i >= 0; i--)
    {
        if (i < ux && x[i] != y[i])
        {
            return x[i] > y[i] ? 1 : -1;
        }
    }
    return 0;
}

VF_MAIN
{
    int ub = 1 + (vf_u8() & 1), aneg = vf_bool(), bneg = vf_bool(), i;
    int32_t rc;
    pstm_digit exp[ND];
    int exp_used = 0, exp_neg, same = 1;

    mk(&A, da, 2, aneg);
    mk(&Bv, db_, ub, bneg);
    /* the contract of an exact truncated division */
    g_r0_used = vf_u8() % 3;
    for (i = 0; i < ND; i++)
    {
        r0d[i] = (i < g_r0_used) ? vf_u64() : 0;
    }
    VF_ASSUME(g_r0_used == 0 || r0d[g_r0_used - 1] != 0);
    VF_ASSUME(cmp_mag(r0d, g_r0_used, db_, ub) < 0);
    g_r0_neg = (g_r0_used > 0) && aneg;
    VF_ASSUME(pstm_init_size(NULL, &C, ND) == PSTM_OKAY);

    rc = pstm_mod(NULL, &A, &Bv, &C);

    VF_ASSERT(rc == PSTM_OKAY && g_div_calls == 1, "c13.mod_ok");
    /* expected residue */
    if (g_r0_used == 0 || g_r0_neg == bneg)
    {
        for (i = 0; i < ND; i++)
        {
            exp[i] = r0d[i];
        }
        exp_used = g_r0_used;
        exp_neg = g_r0_neg;
    }
    else
    {
        /* r0 and b have opposite signs: |r0 + b| = |b| - |r0|, sign of b */
        pstm_digit borrow = 0;
        for (i = 0; i < ND; i++)
        {
            pstm_digit bi = db_[i], ri = r0d[i];
            exp[i] = bi - ri - borrow;
            borrow = (bi < ri) || (bi == ri && borrow) ? 1 : 0;
            if (exp[i] != 0)
            {
                exp_used = i + 1;
            }
        }
        exp_neg = bneg;
    }
    for (i = 0; i < ND; i++)
    {
        pstm_digit ci = (i < C.used) ? C.dp[i] : 0;
        same &= (ci == exp[i]);
    }
    VF_REACH("residue");
    VF_ASSERT(same && C.used == exp_used, "c13.mod_value_exact");
    VF_ASSERT((C.sign == PSTM_NEG) == (exp_neg && exp_used > 0), "c13.mod_sign_exact");
    VF_ASSERT(C.used == 0 || (C.sign == PSTM_NEG) == bneg, "c13.mod_result_has_sign_of_modulus_or_is_zero");
    VF_REACH("end");
}
