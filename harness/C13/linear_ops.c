/* linear_ops.c - C13.c: the real pstm add/sub/compare/shift functions
 * (crypto/math/pstm.c, 64-bit digits) against an independent ripple-carry
 * reference, for ALL digit values, every sign combination and the output
 * aliasing patterns.  Operand digit counts are enumerated (VF_UA, VF_UB in
 * 0..VF_MAXU), digits are symbolic.
 *   VF_ALIAS 0: c distinct, 1: c == a, 2: c == b
 *   VF_OP 1 add, 2 sub, 3 sub_s (|a| >= |b|), 4 cmp/cmp_mag, 5 mul_2/div_2,
 *         6 lshd/rshd by VF_SH digits, 7 add_d/sub_d (b is one digit)
 */
#include "vf.h"
#include "crypto/math/pstm.c"
#include "trace_stubs.h"

#ifndef VF_UA
# define VF_UA 2
#endif
#ifndef VF_UB
# define VF_UB 2
#endif
#ifndef VF_ALIAS
# define VF_ALIAS 0
#endif
#ifndef VF_SH
# define VF_SH 1
#endif
#ifndef VF_UC
# define VF_UC 2
#endif
#define ND 8 /* capacity of every operand: no reallocation on these sizes */

typedef struct { int neg; uint64_t d[ND]; } ref_t; /* sign-magnitude, little endian digits */

static pstm_digit da[ND], db[ND], dc[ND];
static pstm_int A, Bv, Cv;

static void mk(pstm_int *x, pstm_digit *dp, int used)
{
    int i;
    for (i = 0; i < ND; i++)
    {
        dp[i] = (i < used) ? vf_u64() : 0;
    }
    x->dp = dp;
    x->pool = NULL;
    x->alloc = ND;
    x->used = (uint16_t) used;
    x->sign = (used > 0 && vf_bool()) ? PSTM_NEG : PSTM_ZPOS;
    /* RI of pstm_int: clamped (top digit non-zero), zero is non-negative */
    if (used > 0)
    {
        VF_ASSUME(dp[used - 1] != 0);
    }
}
static void to_ref(const pstm_int *x, ref_t *r)
{
    int i;
    r->neg = (x->sign == PSTM_NEG);
    for (i = 0; i < ND; i++)
    {
        r->d[i] = (i < x->used) ? x->dp[i] : 0;
    }
}
static int ref_cmp_mag(const ref_t *a, const ref_t *b)
{
    int i;
    for (i = ND - 1; i >= 0; i--)
    {
        if (a->d[i] != b->d[i])
        {
            return a->d[i] > b->d[i] ? 1 : -1;
        }
    }
    return 0;
}
static int ref_is_zero(const ref_t *a)
{
    int i, z = 1;
    for (i = 0; i < ND; i++)
    {
        z &= (a->d[i] == 0);
    }
    return z;
}
static void ref_add_mag(const ref_t *a, const ref_t *b, ref_t *c)
{
    int i;
    unsigned __int128 carry = 0;
    for (i = 0; i < ND; i++)
    {
        unsigned __int128 s = (unsigned __int128) a->d[i] + b->d[i] + carry;
        c->d[i] = (uint64_t) s;
        carry = s >> 64;
    }
}
static void ref_sub_mag(const ref_t *a, const ref_t *b, ref_t *c) /* |a| >= |b| */
{
    int i;
    uint64_t borrow = 0;
    for (i = 0; i < ND; i++)
    {
        uint64_t ai = a->d[i], bi = b->d[i];
        uint64_t r = ai - bi - borrow;
        borrow = (ai < bi) || (ai == bi && borrow) ? 1 : 0;
        c->d[i] = r;
    }
}
/* c = a + (negb ? -b : b) */
static void ref_addsub(const ref_t *a, const ref_t *b, int negb, ref_t *c)
{
    int bneg = negb ? !b->neg : b->neg;
    if (ref_is_zero(b))
    {
        bneg = 0;
    }
    if (a->neg == bneg)
    {
        ref_add_mag(a, b, c);
        c->neg = a->neg;
    }
    else if (ref_cmp_mag(a, b) >= 0)
    {
        ref_sub_mag(a, b, c);
        c->neg = a->neg;
    }
    else
    {
        ref_sub_mag(b, a, c);
        c->neg = bneg;
    }
    if (ref_is_zero(c))
    {
        c->neg = 0;
    }
}
static void check_equals(const pstm_int *x, const ref_t *r, const char *unused)
{
    int i, same = 1, top = 0;
    (void) unused;
    for (i = 0; i < ND; i++)
    {
        uint64_t xi = (i < x->used) ? x->dp[i] : 0;
        same &= (xi == r->d[i]);
        if (r->d[i] != 0)
        {
            top = i + 1;
        }
    }
    VF_ASSERT(same, "c13.value_exact");
    VF_ASSERT(x->used == top, "c13.result_clamped");
    VF_ASSERT((x->sign == PSTM_NEG) == (r->neg != 0), "c13.sign_exact");
    VF_ASSERT(x->used <= x->alloc && x->alloc == ND, "c13.no_overrun");
}

VF_MAIN
{
    ref_t ra, rb, rc;
    pstm_int *a = &A, *b = &Bv, *c = &Cv;
    int32_t rc32;

    mk(&A, da, VF_UA);
    mk(&Bv, db, VF_UB);
    mk(&Cv, dc, VF_UC); /* digit count of the destination's old value: concrete (symbolic counts explode) */
#if VF_ALIAS == 1
    c = a;
#elif VF_ALIAS == 2
    c = b;
#endif
    to_ref(a, &ra);
    to_ref(b, &rb);
    memset(&rc, 0, sizeof(rc));

#if VF_OP == 1
    rc32 = pstm_add(a, b, c);
    ref_addsub(&ra, &rb, 0, &rc);
    VF_ASSERT(rc32 == PSTM_OKAY, "c13.add_ok");
    check_equals(c, &rc, "add");
#elif VF_OP == 2
    rc32 = pstm_sub(a, b, c);
    ref_addsub(&ra, &rb, 1, &rc);
    VF_ASSERT(rc32 == PSTM_OKAY, "c13.sub_ok");
    check_equals(c, &rc, "sub");
#elif VF_OP == 3
    /* unsigned subtraction, documented precondition |a| >= |b| */
    VF_ASSUME(ref_cmp_mag(&ra, &rb) >= 0);
    {
        int csign = c->sign;
        rc32 = pstm_sub_s(a, b, c);
        ref_sub_mag(&ra, &rb, &rc);
        rc.neg = (csign == PSTM_NEG) && !ref_is_zero(&rc);
        VF_ASSERT(rc32 == PSTM_OKAY, "c13.sub_s_ok");
        /* magnitude only: the sign is the caller's business */
        {
            int i, same = 1;
            for (i = 0; i < ND; i++)
            {
                uint64_t xi = (i < c->used) ? c->dp[i] : 0;
                same &= (xi == rc.d[i]);
            }
            VF_ASSERT(same, "c13.sub_s_value_exact");
        }
    }
#elif VF_OP == 4
    {
        int m = ref_cmp_mag(&ra, &rb);
        int s;
        VF_ASSERT(pstm_cmp_mag(a, b) == (m > 0 ? PSTM_GT : m < 0 ? PSTM_LT : PSTM_EQ), "c13.cmp_mag_exact");
        if (ra.neg != rb.neg)
        {
            s = ra.neg ? -1 : 1;
        }
        else
        {
            s = ra.neg ? -m : m;
        }
        VF_ASSERT(pstm_cmp(a, b) == (s > 0 ? PSTM_GT : s < 0 ? PSTM_LT : PSTM_EQ), "c13.cmp_exact");
    }
#elif VF_OP == 5
    {
        ref_t two;
        rc32 = pstm_mul_2(a, c);
        ref_add_mag(&ra, &ra, &two);
        two.neg = ra.neg;
        VF_ASSERT(rc32 == PSTM_OKAY, "c13.mul_2_ok");
        check_equals(c, &two, "mul_2");
    }
#elif VF_OP == 8
    {
        /* halving */
        {
            ref_t half;
            int i;
            pstm_int *dst = (VF_ALIAS == 1) ? a : &Bv;
            for (i = 0; i < ND; i++)
            {
                half.d[i] = (ra.d[i] >> 1) | ((i + 1 < ND) ? (ra.d[i + 1] << 63) : 0);
            }
            half.neg = ra.neg && !ref_is_zero(&half);
            rc32 = pstm_div_2(a, dst);
            VF_ASSERT(rc32 == PSTM_OKAY, "c13.div_2_ok");
            check_equals(dst, &half, "div_2");
        }
    }
#elif VF_OP == 6
    {
        ref_t sh;
        int i;
        rc32 = pstm_copy(a, c);
        VF_ASSERT(rc32 == PSTM_OKAY, "c13.copy_ok");
        check_equals(c, &ra, "copy");
        rc32 = pstm_lshd(c, VF_SH);
        for (i = 0; i < ND; i++)
        {
            sh.d[i] = (i >= VF_SH) ? ra.d[i - VF_SH] : 0;
        }
        sh.neg = ra.neg;
        VF_ASSERT(rc32 == PSTM_OKAY, "c13.lshd_ok");
        check_equals(c, &sh, "lshd");
        pstm_rshd(c, VF_SH);
        check_equals(c, &ra, "rshd");
    }
#endif
    VF_REACH("end");
}
