/* linear_ops.c - C13.c: the real pstm add/sub/compare/shift functions
 * (crypto/math/pstm.c, 64-bit digits) against an independent ripple-carry
 * reference, for ALL digit values, every sign combination and the output
 * aliasing patterns.  Operand digit counts are enumerated (VF_UA, VF_UB in
 * 0..VF_MAXU), digits are symbolic.
 *   VF_ALIAS 0: c distinct, 1: c == a, 2: c == b
 *   VF_OP 1 add, 2 sub, 3 sub_s (|a| >= |b|), 4 cmp/cmp_mag, 5 mul_2/div_2,
 *         6 lshd/rshd by VF_SH digits, 7 add_d/sub_d (b is one digit)
 *         9 div_2d (quotient and remainder of a / 2^b, b symbolic in 0..VF_UA*64+1)
 *        10 div / mod (quotient of at most VF_QBITS bits; see below)
 */
#include "vf.h"
#if VF_OP == 10
/* pstm_init() allocates (MIN_RSA_BITS / DIGIT_BIT) * 3 digits for every
 * temporary; scaled down to 6 digits (operands here are <= 2 digits) so that
 * the zeroing / copy loops of the temporaries stay small */
# include "crypto/cryptoImpl.h"
# undef MIN_RSA_BITS
# define MIN_RSA_BITS 128
# ifdef VF_CBMC
/* the temporaries of pstm_div come from a bump allocator over static slots
 * (CBMC's heap model plus pstm_exch pointer swaps is out of reach); every
 * slot has exactly the requested 6 digits, free() is a no-op */
static pstm_digit vf_s0[6], vf_s1[6], vf_s2[6], vf_s3[6], vf_s4[6], vf_s5[6], vf_s6[6], vf_s7[6];
static int vf_slot;
static void *vf_pool_malloc(size_t n)
{
    __CPROVER_assert(n == 6 * sizeof(pstm_digit), "VF:c13.model.allocation_size_is_six_digits");
    __CPROVER_assume(vf_slot < 8);
    switch (vf_slot++)
    {
    case 0: return vf_s0;
    case 1: return vf_s1;
    case 2: return vf_s2;
    case 3: return vf_s3;
    case 4: return vf_s4;
    case 5: return vf_s5;
    case 6: return vf_s6;
    default: return vf_s7;
    }
}
static void vf_pool_free(void *p)
{
    (void) p;
}
static void *vf_pool_realloc(void *p, size_t n)
{
    /* growing is never needed at these sizes; a call is reported */
    __CPROVER_assert(0, "VF:c13.model.no_reallocation_at_these_sizes");
    return NULL;
}
#  define malloc vf_pool_malloc
#  define free vf_pool_free
#  define realloc vf_pool_realloc
# endif
#endif
#include "crypto/math/pstm.c"
#include "trace_stubs.h"

#ifndef VF_UA
# define VF_UA 2
#endif
#ifndef VF_UB
# define VF_UB 2
#endif
#ifndef VF_ALIAS
# define VF_ALIAS 0
#endif
#ifndef VF_SH
# define VF_SH 1
#endif
#ifndef VF_UC
# define VF_UC 2
#endif
#ifndef VF_QBITS
# define VF_QBITS 8
#endif
#ifndef VF_MOD
# define VF_MOD 0
#endif
#define ND 8 /* capacity of every operand: no reallocation on these sizes */

typedef struct { int neg; uint64_t d[ND]; } ref_t; /* sign-magnitude, little endian digits */

static pstm_digit da[ND], db[ND], dc[ND];
static pstm_int A, Bv, Cv;

static void mk(pstm_int *x, pstm_digit *dp, int used)
{
    int i;
    for (i = 0; i < ND; i++)
    {
        dp[i] = (i < used) ? vf_u64() : 0;
    }
    x->dp = dp;
    x->pool = NULL;
    x->alloc = ND;
    x->used = (uint16_t) used;
    x->sign = (used > 0 && vf_bool()) ? PSTM_NEG : PSTM_ZPOS;
    /* RI of pstm_int: clamped (top digit non-zero), zero is non-negative */
    if (used > 0)
    {
        VF_ASSUME(dp[used - 1] != 0);
    }
}
static void to_ref(const pstm_int *x, ref_t *r)
{
    int i;
    r->neg = (x->sign == PSTM_NEG);
    for (i = 0; i < ND; i++)
    {
        r->d[i] = (i < x->used) ? x->dp[i] : 0;
    }
}
static int ref_cmp_mag(const ref_t *a, const ref_t *b)
{
    int i;
    for (i = ND - 1; i >= 0; i--)
    {
        if (a->d[i] != b->d[i])
        {
            return a->d[i] > b->d[i] ? 1 : -1;
        }
    }
    return 0;
}
static int ref_is_zero(const ref_t *a)
{
    int i, z = 1;
    for (i = 0; i < ND; i++)
    {
        z &= (a->d[i] == 0);
    }
    return z;
}
static void ref_add_mag(const ref_t *a, const ref_t *b, ref_t *c)
{
    int i;
    unsigned __int128 carry = 0;
    for (i = 0; i < ND; i++)
    {
        unsigned __int128 s = (unsigned __int128) a->d[i] + b->d[i] + carry;
        c->d[i] = (uint64_t) s;
        carry = s >> 64;
    }
}
static void ref_sub_mag(const ref_t *a, const ref_t *b, ref_t *c) /* |a| >= |b| */
{
    int i;
    uint64_t borrow = 0;
    for (i = 0; i < ND; i++)
    {
        uint64_t ai = a->d[i], bi = b->d[i];
        uint64_t r = ai - bi - borrow;
        borrow = (ai < bi) || (ai == bi && borrow) ? 1 : 0;
        c->d[i] = r;
    }
}
/* c = a + (negb ? -b : b) */
static void ref_addsub(const ref_t *a, const ref_t *b, int negb, ref_t *c)
{
    int bneg = negb ? !b->neg : b->neg;
    if (ref_is_zero(b))
    {
        bneg = 0;
    }
    if (a->neg == bneg)
    {
        ref_add_mag(a, b, c);
        c->neg = a->neg;
    }
    else if (ref_cmp_mag(a, b) >= 0)
    {
        ref_sub_mag(a, b, c);
        c->neg = a->neg;
    }
    else
    {
        ref_sub_mag(b, a, c);
        c->neg = bneg;
    }
    if (ref_is_zero(c))
    {
        c->neg = 0;
    }
}
static void check_equals(const pstm_int *x, const ref_t *r, const char *unused)
{
    int i, same = 1, top = 0;
    (void) unused;
    for (i = 0; i < ND; i++)
    {
        uint64_t xi = (i < x->used) ? x->dp[i] : 0;
        same &= (xi == r->d[i]);
        if (r->d[i] != 0)
        {
            top = i + 1;
        }
    }
    VF_ASSERT(same, "c13.value_exact");
    VF_ASSERT(x->used == top, "c13.result_clamped");
    VF_ASSERT((x->sign == PSTM_NEG) == (r->neg != 0), "c13.sign_exact");
    VF_ASSERT(x->used <= x->alloc && x->alloc == ND, "c13.no_overrun");
}

VF_MAIN
{
    ref_t ra, rb, rc;
    pstm_int *a = &A, *b = &Bv, *c = &Cv;
    int32_t rc32;

    mk(&A, da, VF_UA);
    mk(&Bv, db, VF_UB);
    mk(&Cv, dc, VF_UC); /* digit count of the destination's old value: concrete (symbolic counts explode) */
#if VF_ALIAS == 1
    c = a;
#elif VF_ALIAS == 2
    c = b;
#endif
    to_ref(a, &ra);
    to_ref(b, &rb);
    memset(&rc, 0, sizeof(rc));

#if VF_OP == 1
    rc32 = pstm_add(a, b, c);
    ref_addsub(&ra, &rb, 0, &rc);
    VF_ASSERT(rc32 == PSTM_OKAY, "c13.add_ok");
    check_equals(c, &rc, "add");
#elif VF_OP == 2
    rc32 = pstm_sub(a, b, c);
    ref_addsub(&ra, &rb, 1, &rc);
    VF_ASSERT(rc32 == PSTM_OKAY, "c13.sub_ok");
    check_equals(c, &rc, "sub");
#elif VF_OP == 3
    /* unsigned subtraction, documented precondition |a| >= |b| */
    VF_ASSUME(ref_cmp_mag(&ra, &rb) >= 0);
    {
        int csign = c->sign;
        rc32 = pstm_sub_s(a, b, c);
        ref_sub_mag(&ra, &rb, &rc);
        rc.neg = (csign == PSTM_NEG) && !ref_is_zero(&rc);
        VF_ASSERT(rc32 == PSTM_OKAY, "c13.sub_s_ok");
        /* magnitude only: the sign is the caller's business */
        {
            int i, same = 1;
            for (i = 0; i < ND; i++)
            {
                uint64_t xi = (i < c->used) ? c->dp[i] : 0;
                same &= (xi == rc.d[i]);
            }
            VF_ASSERT(same, "c13.sub_s_value_exact");
        }
    }
#elif VF_OP == 4
    {
        int m = ref_cmp_mag(&ra, &rb);
        int s;
        VF_ASSERT(pstm_cmp_mag(a, b) == (m > 0 ? PSTM_GT : m < 0 ? PSTM_LT : PSTM_EQ), "c13.cmp_mag_exact");
        if (ra.neg != rb.neg)
        {
            s = ra.neg ? -1 : 1;
        }
        else
        {
            s = ra.neg ? -m : m;
        }
        VF_ASSERT(pstm_cmp(a, b) == (s > 0 ? PSTM_GT : s < 0 ? PSTM_LT : PSTM_EQ), "c13.cmp_exact");
    }
#elif VF_OP == 5
    {
        ref_t two;
        rc32 = pstm_mul_2(a, c);
        ref_add_mag(&ra, &ra, &two);
        two.neg = ra.neg;
        VF_ASSERT(rc32 == PSTM_OKAY, "c13.mul_2_ok");
        check_equals(c, &two, "mul_2");
    }
#elif VF_OP == 8
    {
        /* halving */
        {
            ref_t half;
            int i;
            pstm_int *dst = (VF_ALIAS == 1) ? a : &Bv;
            for (i = 0; i < ND; i++)
            {
                half.d[i] = (ra.d[i] >> 1) | ((i + 1 < ND) ? (ra.d[i + 1] << 63) : 0);
            }
            half.neg = ra.neg && !ref_is_zero(&half);
            rc32 = pstm_div_2(a, dst);
            VF_ASSERT(rc32 == PSTM_OKAY, "c13.div_2_ok");
            check_equals(dst, &half, "div_2");
        }
    }
#elif VF_OP == 6
    {
        ref_t sh;
        int i;
        rc32 = pstm_copy(a, c);
        VF_ASSERT(rc32 == PSTM_OKAY, "c13.copy_ok");
        check_equals(c, &ra, "copy");
        rc32 = pstm_lshd(c, VF_SH);
        for (i = 0; i < ND; i++)
        {
            sh.d[i] = (i >= VF_SH) ? ra.d[i - VF_SH] : 0;
        }
        sh.neg = ra.neg;
        VF_ASSERT(rc32 == PSTM_OKAY, "c13.lshd_ok");
        check_equals(c, &sh, "lshd");
        pstm_rshd(c, VF_SH);
        check_equals(c, &ra, "rshd");
    }
#elif VF_OP == 9
    {
        /* c = a / 2^sh (truncated), d = a - c * 2^sh, for every shift count */
        ref_t q, r;
        int i;
        int16_t sh = (int16_t) vf_u16();
        unsigned ds, bs;
        pstm_int *rem = vf_bool() ? &Bv : NULL;
        VF_ASSUME(sh >= -1 && sh <= VF_UA * 64 + 1);
        ds = (sh > 0) ? (unsigned) sh / 64 : 0;
        bs = (sh > 0) ? (unsigned) sh % 64 : 0;
        memset(&q, 0, sizeof(q));
        memset(&r, 0, sizeof(r));
        for (i = 0; i < ND; i++)
        {
            uint64_t lo = (i + ds < ND) ? ra.d[i + ds] : 0;
            uint64_t hi = (i + ds + 1 < ND) ? ra.d[i + ds + 1] : 0;
            q.d[i] = bs ? ((lo >> bs) | (hi << (64 - bs))) : lo;
            if ((unsigned) i < ds)
            {
                r.d[i] = ra.d[i];
            }
            else if ((unsigned) i == ds && bs)
            {
                r.d[i] = ra.d[i] & ((((uint64_t) 1) << bs) - 1);
            }
        }
        q.neg = ra.neg && !ref_is_zero(&q);
        r.neg = ra.neg && !ref_is_zero(&r);
        rc32 = pstm_div_2d(NULL, a, sh, c, rem);
        VF_ASSERT(rc32 == PSTM_OKAY, "c13.div_2d_ok");
        check_equals(c, &q, "div_2d");
        if (rem != NULL)
        {
            VF_REACH("div_2d_remainder");
            check_equals(rem, &r, "div_2d.rem");
        }
    }
#elif VF_OP == 10
    {
        /* a = q * b + r, |r| < |b|, sign(r) = sign(a), sign(q) = sign(a)*sign(b);
           bound: bitlen(a) - bitlen(b) < VF_QBITS (the shift-subtract loop of
           pstm_div runs once per quotient bit) */
        static pstm_int Q, R;
        ref_t rq, rr, acc, t;
        int i, k, ba, bb;
        VF_ASSUME(VF_UB > 0);
        ba = pstm_count_bits(a);
        bb = pstm_count_bits(b);
        VF_ASSUME(ba - bb < VF_QBITS);
        VF_ASSUME(pstm_init(NULL, &Q) == PSTM_OKAY && pstm_init(NULL, &R) == PSTM_OKAY);
#if VF_MOD
        rc32 = pstm_mod(NULL, a, b, &R);
        VF_ASSERT(rc32 == PSTM_OKAY, "c13.mod_ok");
#else
        rc32 = pstm_div(NULL, a, b, &Q, &R);
        VF_ASSERT(rc32 == PSTM_OKAY, "c13.div_ok");
#endif
        to_ref(&R, &rr);
        VF_ASSERT(R.used <= ND, "c13.div_remainder_size");
        VF_ASSERT(ref_cmp_mag(&rr, &rb) < 0, "c13.div_remainder_smaller_than_divisor");
#if VF_MOD
        /* pstm_mod: result has the sign of b (or is zero); a - r is a multiple
           of b: checked through the quotient recomputed by pstm_div */
        VF_ASSERT(ref_is_zero(&rr) || rr.neg == rb.neg, "c13.mod_sign_of_modulus");
        rc32 = pstm_div(NULL, a, b, &Q, NULL);
        to_ref(&Q, &rq);
        if (!ref_is_zero(&rr) && ra.neg != rb.neg)
        {
            /* r = r_trunc + b  =>  |r_trunc| = |b| - |r| */
            ref_t tmp;
            ref_sub_mag(&rb, &rr, &tmp);
            rr = tmp;
        }
#else
        to_ref(&Q, &rq);
        VF_ASSERT(Q.used <= ND, "c13.div_quotient_size");
        VF_ASSERT(ref_is_zero(&rr) || rr.neg == ra.neg, "c13.div_remainder_sign");
        VF_ASSERT(ref_is_zero(&rq) || rq.neg == (ra.neg != rb.neg), "c13.div_quotient_sign");
#endif
        /* |a| == |q| * |b| + |r| by shift-and-add over the quotient bits */
        memset(&acc, 0, sizeof(acc));
        t = rb;
        for (k = 0; k < VF_QBITS + 1; k++)
        {
            if ((rq.d[0] >> k) & 1)
            {
                ref_t s2;
                ref_add_mag(&acc, &t, &s2);
                acc = s2;
            }
            {
                ref_t dbl;
                ref_add_mag(&t, &t, &dbl);
                t = dbl;
            }
        }
        for (i = 1; i < ND; i++)
        {
            VF_ASSERT(rq.d[i] == 0, "c13.div_quotient_within_bound");
        }
        VF_ASSERT((rq.d[0] >> (VF_QBITS + 1)) == 0, "c13.div_quotient_within_bound");
        {
            ref_t sum;
            int same = 1;
            ref_add_mag(&acc, &rr, &sum);
            for (i = 0; i < ND; i++)
            {
                same &= (sum.d[i] == ra.d[i]);
            }
            VF_ASSERT(same, "c13.div_exact");
        }
    }
#endif
    VF_REACH("end");
}
