/* dh_secret13.c - C10: RFC 8446 7.4.1 - the finite-field (EC)DHE input to the
 * key schedule is the shared secret left-padded with zeros to the size of the
 * prime.
 * Unit: the real tls13GenSharedSecretDh (matrixssl/tls13KeyAgree.c).
 * psDhGenSharedSecret is a contract stub: it writes a secret of any length
 * 1..size (leading zero octets stripped, as the real function does) into the
 * caller's buffer; psDhExportParameters is a stub.
 */
#include "vf.h"
#define VF_HEAP_SLOT 16
#include "heap_model.h"
#include "matrixssl/matrixsslImpl.h"
#include "matrixssl/tls13KeyAgree.c"
#include "ssl_state.h"
#include "trace_stubs.h"

#ifndef VF_PSIZE
# define VF_PSIZE 8   /* size of the prime in bytes (scaled: 256..1024 in reality) */
#endif
static sslKeys_t K;
static psDhKey_t peer;
static unsigned char Z[VF_PSIZE];
static psSize_t g_zlen;
static int g_gen_calls;

int32_t psDhExportParameters(psPool_t *pool, const psDhParams_t *params, unsigned char **pp, psSize_t *pLen,
    unsigned char **pg, psSize_t *gLen)
{
    return vf_bool() ? PS_SUCCESS : PS_MEM_FAIL;
}
int32_t psDhGenSharedSecret(psPool_t *pool, const psDhKey_t *privKey, const psDhKey_t *pubKey,
    const unsigned char *pBin, psSize_t pBinLen, unsigned char *out, psSize_t *outlen, void *usrData)
{
    psSize_t i;
    g_gen_calls++;
    if (vf_bool())
    {
        return PS_FAILURE;
    }
    /* contract: big-endian magnitude without leading zeros, 1..size bytes */
    VF_ASSUME(g_zlen >= 1 && g_zlen <= *outlen && Z[0] != 0);
    for (i = 0; i < VF_PSIZE; i++)
    {
        if (i < g_zlen)
        {
            out[i] = Z[i];
        }
    }
    *outlen = g_zlen;
    return PS_SUCCESS;
}

VF_MAIN
{
    ssl_t *ssl = &S;
    psPubKey_t priv;
    unsigned char *secret = NULL;
    psSize_t secretLen = 0, i;
    int32_t rc;

    VF_HAVOC(S, ssl_t);
    memset(&priv, 0, sizeof(priv));
    memset(&K, 0, sizeof(K));
    priv.type = PS_DH;
    priv.key.dh.size = VF_PSIZE;
    ssl->keys = &K;
    ssl->sec.dhKeyPub = &peer;
    ssl->hsPool = NULL;
    ssl->err = SSL_ALERT_NONE;
    vf_bytes(Z, VF_PSIZE);
    g_zlen = vf_u8();

    rc = tls13GenSharedSecretDh(ssl, &priv, &secret, &secretLen);

    if (rc == PS_SUCCESS)
    {
        int ok = 1;
        VF_REACH("secret");
        VF_ASSERT(secret != NULL && secretLen == VF_PSIZE, "c10.tls13_ffdhe_secret_has_size_of_prime");
        for (i = 0; i < VF_PSIZE; i++)
        {
            if (i < (psSize_t) (VF_PSIZE - g_zlen))
            {
                ok &= (secret[i] == 0);
            }
            else
            {
                ok &= (secret[i] == Z[i - (VF_PSIZE - g_zlen)]);
            }
        }
        VF_ASSERT(ok, "c10.tls13_ffdhe_secret_left_padded_with_zeros");
        VF_ASSERT(VF_HEAP_OK(), "c08.tls13_ffdhe_block_operations_inside_allocation");
        if (g_zlen < VF_PSIZE)
        {
            VF_REACH("padded");
        }
    }
    else
    {
        VF_REACH("failed");
        VF_ASSERT(ssl->err == SSL_ALERT_INTERNAL_ERROR, "c10.tls13_ffdhe_failure_alert");
    }
    VF_REACH("end");
}
