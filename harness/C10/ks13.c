/* ks13.c - C10.a: the TLS 1.3 key schedule follows RFC 8446 7.1 / 7.3.
 * Units: the real tls13DeriveHandshakeTrafficSecrets, tls13DeriveAppTraffic
 * Secrets, tls13DeriveResumptionMasterSecret, tls13DeriveHandshakeKeys,
 * tls13DeriveSecret, tls13GenerateEarlySecret, tls13DeriveEarlySecrets
 * (matrixssl/tls13KeySchedule.c), full (non-PSK) handshake.
 * HKDF-Extract and HKDF-Expand-Label are logging stubs (arbitrary outputs,
 * arbitrary failure; their own structure is decided in C12): the harness
 * checks the *call sequence*: which secret is the input of which step, under
 * which label, over which transcript hash, with which output length.
 *   Early = Extract(0, 0);  d1 = Expand(Early, "derived", Hash(""))
 *   HS = Extract(d1, ECDHE)
 *   c/s hs = Expand(HS, "c hs traffic" / "s hs traffic", Hash(CH..SH))
 *   d2 = Expand(HS, "derived", Hash(""));  Master = Extract(d2, 0)
 *   c/s ap = Expand(Master, "c ap traffic" / "s ap traffic", Hash(CH..SF))
 *   res = Expand(Master, "res master", Hash(CH..CF))
 *   key / iv = Expand(traffic secret, "key" / "iv", "", key_len / iv_len)
 */
#include "vf.h"
#define VF_HEAP_SLOT 64
#include "heap_model.h"
#include "matrixssl/matrixsslImpl.h"
#include "matrixssl/tls13KeySchedule.c"
#include "ssl_state.h"
#include "trace_stubs.h"

#define MAXEV 12
#define HL 32
static int g_n;
static int g_kind[MAXEV];                 /* 1 = Extract, 2 = ExpandLabel */
static const unsigned char *g_in1[MAXEV], *g_in2[MAXEV], *g_out[MAXEV];
static unsigned g_len1[MAXEV], g_len2[MAXEV], g_outlen[MAXEV];
static char g_label[MAXEV][16];
static unsigned g_labellen[MAXEV];
static unsigned char g_in2_zero[MAXEV], g_in1_zero[MAXEV];
static unsigned char ECDHE[HL];
static int g_share_calls;

static int all_zero(const unsigned char *p, unsigned n)
{
    unsigned i;
    int z = 1;
    for (i = 0; i < 64; i++)
    {
        if (i < n)
        {
            z &= (p[i] == 0);
        }
    }
    return z;
}
int32_t psHkdfExtract(psCipherType_e hmacAlg, const unsigned char *salt, psSize_t saltLen, const unsigned char *ikm, psSize_t ikmLen,
    unsigned char prk[MAX_HASHLEN], psSize_t *prkLen)
{
    int i;
    if (g_n < MAXEV)
    {
        g_kind[g_n] = 1;
        g_in1[g_n] = salt;
        g_len1[g_n] = saltLen;
        g_in2[g_n] = ikm;
        g_len2[g_n] = ikmLen;
        g_in1_zero[g_n] = all_zero(salt, saltLen);
        g_in2_zero[g_n] = all_zero(ikm, ikmLen);
        g_out[g_n] = prk;
        g_n++;
    }
    if (vf_bool())
    {
        return PS_FAILURE;
    }
    for (i = 0; i < HL; i++)
    {
        prk[i] = vf_u8() | 1; /* arbitrary non-zero secret */
    }
    *prkLen = HL;
    return PS_SUCCESS;
}
int32_t psHkdfExpandLabel(psPool_t *pool, psCipherType_e hmacAlg, const unsigned char *secret, psSize_t secretLen, const char *label,
    psSize_t labelLen, const unsigned char *context, psSize_t contextLen, psSize_t length, unsigned char *out)
{
    unsigned i;
    if (g_n < MAXEV)
    {
        g_kind[g_n] = 2;
        g_in1[g_n] = secret;
        g_len1[g_n] = secretLen;
        g_in2[g_n] = context;
        g_len2[g_n] = contextLen;
        g_outlen[g_n] = length;
        g_out[g_n] = out;
        g_labellen[g_n] = labelLen;
        for (i = 0; i < 15; i++)
        {
            g_label[g_n][i] = (i < labelLen) ? label[i] : 0;
        }
        g_label[g_n][15] = 0;
        g_n++;
    }
    if (vf_bool())
    {
        return PS_FAILURE;
    }
    for (i = 0; i < 48; i++)
    {
        if (i < length)
        {
            out[i] = vf_u8() | 1;
        }
    }
    return PS_SUCCESS;
}
int32_t tls13GenSharedSecret(ssl_t *ssl, unsigned char **out, psSize_t *outLen)
{
    unsigned char *s;
    g_share_calls++;
    if (vf_bool())
    {
        return PS_FAILURE;
    }
    s = (unsigned char *) malloc(HL);
    if (s == NULL)
    {
        return PS_MEM_FAIL;
    }
    memcpy(s, ECDHE, HL);
    *out = s;
    *outLen = HL;
    return PS_SUCCESS;
}
int32_t tls13GetCipherHmacAlg(ssl_t *ssl)
{
    return HMAC_SHA256;
}
int32_t tls13GetCipherHashSize(ssl_t *ssl)
{
    return HL;
}
psResSize_t psGetOutputBlockLength(psCipherType_e alg)
{
    return alg == HMAC_SHA256 ? 32 : (alg == HMAC_SHA384 ? 48 : PS_ARG_FAIL);
}

static int label_is(int e, const char *s)
{
    unsigned n = (unsigned) strlen(s), i;
    int ok = (g_labellen[e] == n);
    for (i = 0; i < 15; i++)
    {
        if (i < n)
        {
            ok &= (g_label[e][i] == s[i]);
        }
    }
    return ok;
}
static int empty_hash_ctx(int e)
{
    /* Derive-Secret(., ., "") = Expand-Label(., ., Hash(""), L): SHA-256("") starts e3 b0 c4 42 */
    return g_len2[e] == HL && g_in2[e][0] == 0xe3 && g_in2[e][1] == 0xb0 && g_in2[e][2] == 0xc4 && g_in2[e][31] == 0x55;
}

VF_MAIN
{
    ssl_t *ssl = &S;
    int32_t rc;

    VF_HAVOC(S, ssl_t);
    vf_cipher_init(&S_cipher);
    S_cipher.keySize = vf_bool() ? 16 : 32;
    S_cipher.ivSize = 12;
    ssl->cipher = &S_cipher;
    ssl->flags = vf_u32();
    ssl->hsPool = NULL;
    ssl->sec.tls13ChosenPsk = NULL;
#ifdef VF_FAULT_ALLOC
    /* C19: psk_ke replaces the (EC)DHE secret by an allocated all-zero one */
    ssl->sec.tls13ChosenPskMode = vf_bool() ? psk_keyex_mode_psk_ke : psk_keyex_mode_psk_dhe_ke;
#else
    ssl->sec.tls13ChosenPskMode = psk_keyex_mode_psk_dhe_ke;
#endif
    ssl->sec.tls13UsingPsk = PS_FALSE;
    ssl->sec.tls13DidEncodePsk = PS_FALSE;
    memset(&ssl->sec.tls13KsState, 0, sizeof(ssl->sec.tls13KsState));
    vf_bytes(ECDHE, HL);
    vf_bytes(ssl->sec.tls13TrHashSnapshotCHtoSH, HL);
    vf_bytes(ssl->sec.tls13TrHashSnapshot, HL);

#if VF_OP == 0
    rc = tls13DeriveHandshakeTrafficSecrets(ssl);
    if (rc == PS_SUCCESS)
    {
        VF_REACH("handshake_secrets");
        VF_ASSERT(g_n == 5, "c10.ks.handshake_phase_is_five_steps");
        /* Early Secret = Extract(salt 0, IKM 0) */
        VF_ASSERT(g_kind[0] == 1 && g_len1[0] == HL && g_in1_zero[0] && g_len2[0] == HL && g_in2_zero[0], "c10.ks.early_secret_from_zero_psk");
        /* derived = Expand-Label(Early, "derived", Hash("")) */
        VF_ASSERT(g_kind[1] == 2 && g_in1[1] == g_out[0] && g_len1[1] == HL && label_is(1, "derived") && empty_hash_ctx(1) && g_outlen[1] == HL,
            "c10.ks.derived_from_early_secret_over_empty_hash");
        /* Handshake Secret = Extract(salt = derived, IKM = (EC)DHE) */
        VF_ASSERT(g_kind[2] == 1 && g_in1[2] == g_out[1] && g_len1[2] == HL && g_len2[2] == HL &&
            (g_share_calls == 1 || (ssl->sec.tls13ChosenPskMode == psk_keyex_mode_psk_ke && g_in2_zero[2])), "c10.ks.handshake_secret_salted_with_derived");
        VF_ASSERT(g_out[2] == ssl->sec.tls13HandshakeSecret, "c10.ks.handshake_secret_stored");
        /* c / s hs traffic over Hash(ClientHello..ServerHello) */
        VF_ASSERT(g_kind[3] == 2 && g_in1[3] == ssl->sec.tls13HandshakeSecret && label_is(3, "c hs traffic") &&
            g_in2[3] == ssl->sec.tls13TrHashSnapshotCHtoSH && g_len2[3] == HL && g_out[3] == ssl->sec.tls13HsTrafficSecretClient && g_outlen[3] == HL,
            "c10.ks.client_handshake_traffic_secret");
        VF_ASSERT(g_kind[4] == 2 && g_in1[4] == ssl->sec.tls13HandshakeSecret && label_is(4, "s hs traffic") &&
            g_in2[4] == ssl->sec.tls13TrHashSnapshotCHtoSH && g_len2[4] == HL && g_out[4] == ssl->sec.tls13HsTrafficSecretServer && g_outlen[4] == HL,
            "c10.ks.server_handshake_traffic_secret");
# ifdef VF_CBMC
        VF_ASSERT(vf_heap_live == 0, "c19.ks.shared_secret_released");
# endif
    }
    else
    {
        VF_REACH("failed");
        VF_ASSERT(rc < 0, "c19.ks.failure_is_negative");
# ifdef VF_FAULT_ALLOC
        VF_ASSERT(VF_LIVE_BLOCKS() == 0, "c19.ks.shared_secret_released_on_failure");
# endif
    }
#elif VF_OP == 1
    vf_bytes(ssl->sec.tls13HandshakeSecret, HL);
    rc = tls13DeriveAppTrafficSecrets(ssl);
    if (rc == PS_SUCCESS)
    {
        VF_REACH("application_secrets");
        VF_ASSERT(g_n == 4, "c10.ks.application_phase_is_four_steps");
        VF_ASSERT(g_kind[0] == 2 && g_in1[0] == ssl->sec.tls13HandshakeSecret && label_is(0, "derived") && empty_hash_ctx(0) && g_outlen[0] == HL,
            "c10.ks.derived_from_handshake_secret_over_empty_hash");
        VF_ASSERT(g_kind[1] == 1 && g_in1[1] == g_out[0] && g_len1[1] == HL && g_len2[1] == HL && g_in2_zero[1] && g_out[1] == ssl->sec.tls13MasterSecret,
            "c10.ks.master_secret_salted_with_derived_zero_ikm");
        VF_ASSERT(g_kind[2] == 2 && g_in1[2] == ssl->sec.tls13MasterSecret && label_is(2, "c ap traffic") && g_in2[2] == ssl->sec.tls13TrHashSnapshot &&
            g_len2[2] == HL && g_out[2] == ssl->sec.tls13AppTrafficSecretClient, "c10.ks.client_application_traffic_secret");
        VF_ASSERT(g_kind[3] == 2 && g_in1[3] == ssl->sec.tls13MasterSecret && label_is(3, "s ap traffic") && g_in2[3] == ssl->sec.tls13TrHashSnapshot &&
            g_len2[3] == HL && g_out[3] == ssl->sec.tls13AppTrafficSecretServer, "c10.ks.server_application_traffic_secret");
    }
    else
    {
        VF_REACH("failed");
    }
    /* resumption master secret over the same schedule */
    g_n = 0;
    rc = tls13DeriveResumptionMasterSecret(ssl);
    if (rc == PS_SUCCESS)
    {
        VF_ASSERT(g_n == 1 && g_kind[0] == 2 && g_in1[0] == ssl->sec.tls13MasterSecret && label_is(0, "res master") &&
            g_in2[0] == ssl->sec.tls13TrHashSnapshot && g_out[0] == ssl->sec.tls13ResumptionMasterSecret, "c10.ks.resumption_master_secret");
    }
#else
    rc = tls13DeriveHandshakeKeys(ssl);
    if (rc == PS_SUCCESS)
    {
        int server = (ssl->flags & SSL_FLAGS_SERVER) != 0;
        const unsigned char *rd = server ? ssl->sec.tls13HsTrafficSecretClient : ssl->sec.tls13HsTrafficSecretServer;
        const unsigned char *wr = server ? ssl->sec.tls13HsTrafficSecretServer : ssl->sec.tls13HsTrafficSecretClient;
        VF_REACH("handshake_keys");
        VF_ASSERT(g_n == 4, "c10.ks.four_key_derivations");
        VF_ASSERT(g_in1[0] == rd && label_is(0, "key") && g_len2[0] == 0 && g_outlen[0] == S_cipher.keySize && g_out[0] == ssl->sec.tls13HsReadKey,
            "c10.ks.read_key_from_peer_traffic_secret");
        VF_ASSERT(g_in1[1] == rd && label_is(1, "iv") && g_len2[1] == 0 && g_outlen[1] == 12 && g_out[1] == ssl->sec.tls13HsReadIv,
            "c10.ks.read_iv_from_peer_traffic_secret");
        VF_ASSERT(g_in1[2] == wr && label_is(2, "key") && g_len2[2] == 0 && g_outlen[2] == S_cipher.keySize && g_out[2] == ssl->sec.tls13HsWriteKey,
            "c10.ks.write_key_from_own_traffic_secret");
        VF_ASSERT(g_in1[3] == wr && label_is(3, "iv") && g_len2[3] == 0 && g_outlen[3] == 12 && g_out[3] == ssl->sec.tls13HsWriteIv,
            "c10.ks.write_iv_from_own_traffic_secret");
    }
    else
    {
        VF_REACH("failed");
    }
#endif
    VF_REACH("end");
}
