/* suite_hash.c - C10.a/b: the transcript hash and PRF follow the cipher suite
 * as the RFCs define it, for every suite of the real table.
 * Units: the real extMasterSecretSnapshotHSHash (RFC 7627 session_hash) and
 * sslSnapshotHSHash / tlsGenerateFinishedHash (RFC 5246 7.4.9 verify_data)
 * of matrixssl/hsHash.c, with ssl->cipher ranging over the real
 * supportedCiphers table (matrixssl/cipherSuite.c).
 * Oracle (independent of the table's flag bits): the IANA registry - the TLS
 * 1.2 PRF / handshake hash is SHA-384 exactly for the suites whose name ends
 * in _SHA384 (RFC 5288, 5289, 5487), SHA-256 for every other suite; below
 * TLS 1.2 it is MD5+SHA-1.
 * Digest finalisation and the PRFs are logging stubs.
 *  VF_OP 0: session_hash, 1: Finished verify_data
 */
#include "vf.h"
#include "matrixssl/matrixsslImpl.h"
#include "matrixssl/cipherSuite.c"
#include "matrixssl/hsHash.c"
#include "ssl_state.h"
#include "trace_stubs.h"

static int g_f384, g_f256, g_fmd5sha1, g_prf, g_prf2;
static uint32_t g_prf2_flags;
static psSize_t g_prf_seedlen, g_prf_outlen;
static const void *g_f384_ctx_src;

void psSha384Final(psSha384_t *c, unsigned char out[SHA384_HASHLEN])
{
    g_f384++;
}
void psSha1Final(psSha1_t *c, unsigned char out[SHA1_HASHLEN])
{
}
void psSha512Final(psSha512_t *c, unsigned char out[SHA512_HASHLEN])
{
}
void psSha256Final(psSha256_t *c, unsigned char out[SHA256_HASHLEN])
{
    g_f256++;
}
void psMd5Sha1Final(psMd5Sha1_t *c, unsigned char out[MD5SHA1_HASHLEN])
{
    g_fmd5sha1++;
}
int32_t prf(const unsigned char *sec, psSize_t secLen, const unsigned char *seed, psSize_t seedLen,
    unsigned char *out, psSize_t outLen)
{
    g_prf++;
    g_prf_seedlen = seedLen;
    g_prf_outlen = outLen;
    return outLen;
}
int32_t prf2(const unsigned char *sec, psSize_t secLen, const unsigned char *seed, psSize_t seedLen,
    unsigned char *out, psSize_t outLen, uint32_t flags)
{
    g_prf2++;
    g_prf2_flags = flags;
    g_prf_seedlen = seedLen;
    g_prf_outlen = outLen;
    return outLen;
}

static int iana_sha384(uint16_t id)
{
    switch (id)
    {
    case 0x009D: case 0x009F: case 0x00A1: case 0x00A3: case 0x00A5: case 0x00A7: /* RFC 5288 */
    case 0x00A9: case 0x00AB: case 0x00AD: case 0x00AF: case 0x00B3: case 0x00B7: /* RFC 5487 */
    case 0xC024: case 0xC026: case 0xC028: case 0xC02A:                           /* RFC 5289 CBC */
    case 0xC02C: case 0xC02E: case 0xC030: case 0xC032:                           /* RFC 5289 GCM */
    case 0xC038: case 0xC03B:                                                     /* RFC 5489 */
        return 1;
    default:
        return 0;
    }
}

VF_MAIN
{
    ssl_t *ssl = &S;
    static unsigned char out[64];
    uint32 outLen = 0;
    uint8_t idx = vf_u8();
    int i, n = 0, tls12, special = 0;
    int32_t rc;

    for (i = 0; i < 255; i++)
    {
        if (supportedCiphers[i].ident == SSL_NULL_WITH_NULL_NULL)
        {
            break;
        }
        n++;
    }
    VF_ASSUME(idx < n);
    VF_HAVOC(S, ssl_t);
    ssl->flags = vf_u32();
    ssl->activeVersion = vf_version(0);
    ssl->cipher = &supportedCiphers[idx];
    ssl->retransmit = 0;
    /* a suite that exists only for TLS 1.3 is never the suite of a <=1.2 session */
    VF_ASSUME(ssl->cipher->type != CS_TLS13);
    tls12 = ACTV_VER(ssl, v_tls_sha2) != 0;

#if VF_OP == 0
    rc = extMasterSecretSnapshotHSHash(ssl, out, &outLen);
    VF_REACH("snapshot");
    if (tls12 && iana_sha384(ssl->cipher->ident))
    {
        special = 1;
        VF_ASSERT(outLen == SHA384_HASH_SIZE && g_f384 == 1 && g_f256 == 0 && g_fmd5sha1 == 0, "c10.session_hash_is_sha384_for_sha384_suites");
    }
    else if (tls12)
    {
        VF_ASSERT(outLen == SHA256_HASH_SIZE && g_f256 == 1 && g_f384 == 0 && g_fmd5sha1 == 0, "c10.session_hash_is_sha256_otherwise");
    }
    else
    {
        special = 1;
        VF_ASSERT(outLen == MD5SHA1_HASHLEN && g_fmd5sha1 == 1 && g_f256 == 0 && g_f384 == 0, "c10.session_hash_is_md5sha1_below_tls12");
    }
    VF_ASSERT(rc == (int32_t) outLen, "c10.session_hash_length_reported");
#else
    rc = sslSnapshotHSHash(ssl, out, vf_bool(), PS_TRUE);
    VF_REACH("snapshot");
    VF_ASSERT(rc == TLS_HS_FINISHED_SIZE && g_prf_outlen == TLS_HS_FINISHED_SIZE, "c10.verify_data_is_12_bytes");
    if (tls12 && iana_sha384(ssl->cipher->ident))
    {
        special = 1;
        VF_ASSERT(g_f384 == 1 && g_f256 == 0 && g_prf2 == 1 && g_prf == 0 && (g_prf2_flags & CRYPTO_FLAGS_SHA3) &&
            g_prf_seedlen == FINISHED_LABEL_SIZE + SHA384_HASH_SIZE, "c10.finished_uses_sha384_prf_and_hash_for_sha384_suites");
    }
    else if (tls12)
    {
        VF_ASSERT(g_f256 == 1 && g_f384 == 0 && g_prf2 == 1 && g_prf == 0 && !(g_prf2_flags & CRYPTO_FLAGS_SHA3) &&
            g_prf_seedlen == FINISHED_LABEL_SIZE + SHA256_HASH_SIZE, "c10.finished_uses_sha256_prf_and_hash_otherwise");
    }
    else
    {
        special = 1;
        VF_ASSERT(g_fmd5sha1 == 1 && g_prf == 1 && g_prf2 == 0 && g_prf_seedlen == FINISHED_LABEL_SIZE + MD5SHA1_HASHLEN,
            "c10.finished_uses_md5sha1_prf_below_tls12");
    }
#endif
    if (special)
    {
        VF_REACH("sha384_suite_or_below_tls12");
    }
    VF_REACH("end");
}
