# C10 - Wire behaviour conforms to the RFCs
HARNESSES = [
    COMMON["aead"]("seal_layout12", 2, [(17, "quick"), (40, "quick")]),
    COMMON["aead"]("seal_layout13", 4, [(1, "quick"), (40, "quick")]),
]
PROPERTY = dict(level='model_checking',
    claim='Seal side of the record protection glue follows RFC 5288 / RFC 8446 5.2-5.3: nonce, AAD, ciphertext followed by a 16-byte tag, sequence number advanced by one.',
    bounds='record lengths 1..40 enumerated',
    outside='interoperation with an independent stack cannot be a solver query; PRF / HKDF-label / key-schedule / Finished call-trace equivalence (C10.a/b) not yet encoded',
    explanation='Seal side of the record protection glue follows RFC 5288 / RFC 8446 5.2-5.3: nonce, AAD, ciphertext followed by a 16-byte tag, sequence number advanced by one.',
    assumptions=[])
