# C10 - Wire behaviour conforms to the RFCs
HARNESSES = [
    COMMON["aead"]("seal_layout12", 2, [(17, "quick"), (40, "quick")]),
    COMMON["aead"]("seal_layout13", 4, [(1, "quick"), (40, "quick")]),
    dict(name="dh_secret13", src="dh_secret13.c", checks=COMMON["MEMCHECKS"],
         units=["matrixssl/hsNegotiateVersion.c"],
         functions=["tls13GenSharedSecretDh"], sources=["matrixssl/tls13KeyAgree.c"],
         assumptions=["dh_secret13: psDhGenSharedSecret is a contract stub returning any magnitude of 1..size bytes without leading zeros (or failure); prime size scaled to 8 bytes; allocation succeeds"],
         unwind=18,
         cases=[dict(name="p8", defs={"VF_PSIZE": 8})]),
    dict(name="suite_hash", src="suite_hash.c", checks=[],
         units=["matrixssl/hsNegotiateVersion.c"],
         functions=["extMasterSecretSnapshotHSHash", "sslSnapshotHSHash", "tlsGenerateFinishedHash"],
         sources=["matrixssl/hsHash.c", "matrixssl/cipherSuite.c"],
         assumptions=["suite_hash: ssl->cipher ranges over every entry of the real supportedCiphers table (TLS 1.3-only suites excluded); version enumerated; digest finalisation, prf and prf2 are logging stubs; oracle = IANA registry (suites named *_SHA384 use SHA-384)"],
         unwind=260,
         cases=[dict(name="%s_op%d" % (nm, op), defs={"VF_VER": v, "VF_OP": op})
                for nm, v in (("tls12", "(v_tls_1_2|v_tls_negotiated)"), ("tls11", "(v_tls_1_1|v_tls_negotiated)"), ("dtls12", "(v_dtls_1_2|v_tls_negotiated)")) for op in (0, 1)]),
]
HARNESSES.append(dict(
    name="ks13", src="ks13.c", checks=COMMON["MEMCHECKS"],
    units=["matrixssl/hsNegotiateVersion.c"],
    functions=["tls13DeriveHandshakeTrafficSecrets", "tls13DeriveAppTrafficSecrets", "tls13DeriveResumptionMasterSecret", "tls13DeriveHandshakeKeys",
               "tls13DeriveSecret", "tls13GenerateEarlySecret", "tls13DeriveEarlySecrets"],
    sources=["matrixssl/tls13KeySchedule.c"],
    assumptions=["ks13: full (non-PSK) TLS 1.3 handshake with a SHA-256 suite; psHkdfExtract / psHkdfExpandLabel are logging stubs with arbitrary outputs and arbitrary failure; tls13GenSharedSecret returns an arbitrary 32-byte (EC)DHE secret or fails; heap = static-pool model"],
    undefined_ok="*", unwind=70,
    cases=[dict(name="op%d" % o, defs={"VF_OP": o}) for o in (0, 1, 2)]))
# RFC 8446 7.1 HkdfLabel encoding: the C12 harness for psHkdfExpandLabel
import os as _os
_g12 = {"__file__": _os.path.join(_os.path.dirname(__file__), "..", "C12", "spec.py"), "COMMON": COMMON}
exec(compile(open(_g12["__file__"]).read(), _g12["__file__"], "exec"), _g12)
HARNESSES += [dict(h, dir="C12", name="hkdf_label13") for h in _g12["HARNESSES"] if h["name"] == "hkdf_label"]
PROPERTY = dict(level='model_checking',
    claim='Seal side of the record protection glue follows RFC 5288 / RFC 8446 5.2-5.3: nonce, AAD, ciphertext followed by a 16-byte tag, sequence number advanced by one. RFC 7627 session_hash and the Finished verify_data use SHA-384 (hash and PRF) exactly for the suites the IANA registry names *_SHA384, SHA-256 for every other TLS 1.2 suite and MD5+SHA-1 below TLS 1.2, for every suite of the real table. The TLS 1.3 finite-field shared secret is left-padded with zeros to the size of the prime (RFC 8446 7.4.1). HKDF-Expand-Label passes exactly the RFC 8446 7.1 HkdfLabel encoding to HKDF-Expand; the TLS 1.3 key schedule of a full handshake (early secret, derived, handshake secret, c/s hs traffic, master secret, c/s ap traffic, res master, key/iv) chains the right secrets under the right labels over the right transcript hashes.',
    bounds='record lengths 1..40 enumerated',
    outside='interoperation with an independent stack cannot be a solver query; the TLS 1.2 PRF body, PSK / early-data branches of the key schedule, exporters',
    explanation='Seal side of the record protection glue follows RFC 5288 / RFC 8446 5.2-5.3: nonce, AAD, ciphertext followed by a 16-byte tag, sequence number advanced by one.',
    assumptions=[])
