# C10 - Wire behaviour conforms to the RFCs
HARNESSES = [
    COMMON["aead"]("seal_layout12", 2, [(17, "quick"), (40, "quick")]),
    COMMON["aead"]("seal_layout13", 4, [(1, "quick"), (40, "quick")]),
]
PROPERTY = dict(level="model_checking", explanation="", bounds="", outside="", assumptions=[])
