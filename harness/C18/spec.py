# C18 - TLS behaviour depends on bytes received, not on how they are chunked
HARNESSES = [
    COMMON["dec12"]("partial12", ["C18"], COMMON["dec12_cases"](64, None) + COMMON["dec12_cases"](96, None, tier="thorough")),
    COMMON["dec13"]("partial13", ["C18"], ns=((48, "quick"), (96, "thorough"))),
    COMMON["api_recv"](),
]
PROPERTY = dict(level='model_checking',
    claim='SSL_PARTIAL is pure (buffer, bytes, session state unchanged; requiredLen exceeds what is buffered); the bytes a decode call consumes equal the record bookkeeping the API layer compacts by; matrixSslReceivedData / matrixSslProcessedData / matrixSslSentData from an arbitrary buffer state always hand the decoder the buffer front holding exactly the unconsumed suffix of the received stream (position-tagged bytes), keep unconsumed bytes across compaction, growth and shrinking, deliver only the region the decoder released, and keep the unsent output tail in order.',
    bounds='as C01',
    outside='end-to-end equality of two runs with different chunkings (decided compositionally: decoder purity + API stream invariant); buffers above 12/28/34 bytes in the API harness (SSL_DEFAULT_*_BUF_SIZE scaled to 12); handshake-message fragment reassembly',
    explanation='SSL_PARTIAL is pure: the buffer, the bytes and the session state are unchanged and requiredLen exceeds what is buffered.',
    assumptions=[])
