# C18 - TLS behaviour depends on bytes received, not on how they are chunked
HARNESSES = [
    COMMON["dec12"]("partial12", ["C18"], COMMON["dec12_cases"](64, None) + COMMON["dec12_cases"](96, None, tier="thorough")),
    COMMON["dec13"]("partial13", ["C18"], ns=((48, "quick"), (96, "thorough"))),
]
PROPERTY = dict(level='model_checking',
    claim='SSL_PARTIAL is pure: the buffer, the bytes and the session state are unchanged and requiredLen exceeds what is buffered.',
    bounds='as C01',
    outside='matrixSslReceivedData buffer management and suffix independence are not yet encoded',
    explanation='SSL_PARTIAL is pure: the buffer, the bytes and the session state are unchanged and requiredLen exceeds what is buffered.',
    assumptions=[])
