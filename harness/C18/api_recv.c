/* api_recv.c - the buffer-management layer of the public receive API
 * (C18.b/d, C08.c, C01.c).
 * Unit: the real matrixSslReceivedData, matrixSslProcessedData,
 * matrixSslSentData, revertToDefaultBufsize (matrixssl/matrixsslApi.c), from an
 * arbitrary buffer state.
 * matrixSslDecode is a contract stub: every documented outcome with arbitrary
 * parameters inside the decoder's guarantees - the guarantees themselves
 * (bytes consumed, SSL_PARTIAL purity, rec.len bookkeeping at the hand-off)
 * are decided against the real decoders by the dec12/dec13 harnesses
 * (c18.consumed_equals_record_bookkeeping, c18.partial_*, c01.remaining).
 * The stub *asserts* what the decoder relies on: it is always handed the
 * front of inbuf, with exactly the unconsumed suffix of the byte stream.
 * SSL_DEFAULT_IN/OUT_BUF_SIZE are scaled down (VF_DEF) so that the grow/shrink
 * paths are inside the bound.
 */
#include "vf.h"
#include "matrixssl/matrixsslImpl.h"
#ifndef VF_DEF
# define VF_DEF 12
#endif
#ifndef VF_NMAX
# define VF_NMAX 24
#endif
#ifndef VF_NOUTSZ
# define VF_NOUTSZ VF_NMAX
#endif
#define VF_GROWN (VF_NMAX + 8)
#define VF_SLOT (VF_NOUTSZ + VF_GROWN) /* largest block: queued output + a response filling the grown input buffer */
#undef SSL_DEFAULT_IN_BUF_SIZE
#undef SSL_DEFAULT_OUT_BUF_SIZE
#define SSL_DEFAULT_IN_BUF_SIZE VF_DEF
#define SSL_DEFAULT_OUT_BUF_SIZE VF_DEF
#ifdef VF_CBMC
/* Heap model for the two session buffers.  CBMC's own malloc/realloc model
 * creates one object per unwound call site and does not terminate here, so
 * the buffers live in four static slots with a ghost allocation size:
 * realloc moves the block to a free slot and poisons the old one (size 0),
 * so stale pointers and accesses beyond the *logical* size are reported by
 * the explicit checks in the block-operation models below. */
static unsigned char P0[VF_SLOT], P1[VF_SLOT], P2[VF_SLOT], P3[VF_SLOT];
static size_t pool_sz[4];
static int g_heap_bad;
static unsigned char *pool_base(int j)
{
    return j == 0 ? P0 : (j == 1 ? P1 : (j == 2 ? P2 : P3));
}
static void vf_chk(const void *p, size_t n)
{
    int j, hit = 0;
    for (j = 0; j < 4; j++)
    {
        if (__CPROVER_POINTER_OBJECT(p) == __CPROVER_POINTER_OBJECT(pool_base(j)))
        {
            hit = 1;
            if (n > 0 && (size_t) __CPROVER_POINTER_OFFSET(p) + n > pool_sz[j])
            {
                g_heap_bad++;
            }
        }
    }
    (void) hit;
}
void *memmove(void *d, const void *s, size_t n)
{
    unsigned char tmp[VF_SLOT];
    size_t i;
    vf_chk(d, n);
    vf_chk(s, n);
    if (n > VF_SLOT)
    {
        g_heap_bad++;
        return d;
    }
    for (i = 0; i < VF_SLOT; i++)
    {
        if (i < n)
        {
            tmp[i] = ((const unsigned char *) s)[i];
        }
    }
    for (i = 0; i < VF_SLOT; i++)
    {
        if (i < n)
        {
            ((unsigned char *) d)[i] = tmp[i];
        }
    }
    return d;
}
void *memcpy(void *d, const void *s, size_t n)
{
    return memmove(d, s, n);
}
void *realloc(void *p, size_t n)
{
    int j, from = -1, to = -1;
    size_t i;
    for (j = 0; j < 4; j++)
    {
        if (p == (void *) pool_base(j) && pool_sz[j] > 0)
        {
            from = j;
        }
    }
    for (j = 3; j >= 0; j--)
    {
        if (pool_sz[j] == 0)
        {
            to = j;
        }
    }
    if (from < 0 || to < 0 || n == 0 || n > VF_SLOT)
    {
        g_heap_bad++; /* realloc of something that is not a live buffer, or beyond the modelled sizes */
        return NULL;
    }
    for (i = 0; i < VF_SLOT; i++)
    {
        if (i < n && i < pool_sz[from])
        {
            pool_base(to)[i] = pool_base(from)[i];
        }
    }
    pool_sz[from] = 0;
    pool_sz[to] = n;
    return pool_base(to);
}
#endif
#include "matrixssl/matrixsslApi.c"
#include "ssl_state.h"
#include "trace_stubs.h"

/* The received byte stream is position-tagged: byte i of the stream has value
 * i.  The API layer never inspects buffer contents (only the decoder does, and
 * it is a stub here), so this loses nothing and makes "the decoder sees
 * exactly the unconsumed suffix" a comparison against g_off + i. */
#define ORIG(i) ((unsigned char) (i))
static uint32 g_off;                  /* stream bytes consumed so far */
static int g_dec_calls, g_full_done, g_phase;
static int32 g_last_rc;
static uint32 g_last_k, g_last_n, g_last_req;
static int g_stream_bad, g_front_bad, g_len_bad;

int32 matrixDtlsGetPmtu(void)
{
    return VF_DEF;
}
static int g_getsid;
int32 matrixSslGetSessionId(ssl_t *ssl, sslSessionId_t *session)
{
    g_getsid++;
    return PS_SUCCESS;
}
void sslFreeHSHash(ssl_t *ssl)
{
}

static uint32 aead_extra(const ssl_t *ssl)
{
    uint32 x = 0;
    if ((ssl->flags & SSL_FLAGS_AEAD_R) && !USING_TLS_1_3(ssl))
    {
        x += AEAD_TAG_LEN(ssl);
        x += (ssl->flags & SSL_FLAGS_NONCE_R) ? TLS_EXPLICIT_NONCE_LEN : 0;
    }
    return x;
}
static uint32 explicit_iv(const ssl_t *ssl)
{
    if ((ssl->flags & SSL_FLAGS_READ_SECURE) && ACTV_VER(ssl, v_tls_explicit_iv) && (ssl->deBlockSize > 1))
    {
        return ssl->deBlockSize;
    }
    return 0;
}

int32 matrixSslDecode(ssl_t *ssl, unsigned char **buf, uint32 *len, uint32 size, uint32 *remaining,
    uint32 *requiredLen, int32 *error, unsigned char *alertLevel, unsigned char *alertDescription)
{
    uint32 L = *len, k, n, i, hdr = ssl->recordHeadLen;
    unsigned char *b0 = *buf;
    uint8_t pick;

    g_dec_calls++;
    /* what the decoder relies on */
    if (b0 != ssl->inbuf)
    {
        g_front_bad++;
    }
    /* (after SSL_FULL the call is repeated with an empty input: the decoder
       only has a pending flight to encode) */
    if (L != (uint32) ssl->inlen || (L == 0 && !g_full_done) || (int32) size != ssl->insize || L > size)
    {
        g_len_bad++;
        *error = PS_PROTOCOL_FAIL;
        g_last_rc = MATRIXSSL_ERROR;
        return MATRIXSSL_ERROR; /* do not touch a buffer we cannot trust */
    }
    for (i = 0; i < VF_NMAX; i++)
    {
        if (i < L && (g_off + i >= VF_NMAX || b0[i] != ORIG(g_off + i)))
        {
            g_stream_bad++;
        }
    }
    *alertLevel = vf_u8();
    *alertDescription = vf_u8();
    *requiredLen = 0;
    *remaining = 0;
    if (g_phase == 2)
    {
        /* second API call of the scenario: only the entry checks matter */
        *error = PS_PROTOCOL_FAIL;
        g_last_rc = MATRIXSSL_ERROR;
        return MATRIXSSL_ERROR;
    }
    pick = vf_u8();
    k = vf_u8();
    n = vf_u8();
    switch (pick)
    {
    case 0:
#ifdef USE_DTLS
    case 7:
#endif
        /* one or more whole records consumed */
        VF_ASSUME(k >= hdr && k <= L);
#ifdef VF_AEAD
        VF_ASSUME(k >= hdr + aead_extra(ssl)); /* every record of an AEAD read state carries nonce and tag */
#endif
        *buf = b0 + k;
        g_off += k;
        if (USING_TLS_1_3(ssl) && vf_bool())
        {
            /* TLS 1.3 may have encoded a response into outbuf already */
            uint32 add = vf_u8();
            VF_ASSUME(add <= (uint32) (ssl->outsize - ssl->outlen));
            ssl->outlen += add;
        }
        if (pick == 7)
        {
            VF_ASSUME(ACTV_VER(ssl, v_dtls_any));
            g_last_rc = DTLS_RETRANSMIT;
            return DTLS_RETRANSMIT;
        }
        g_last_rc = MATRIXSSL_SUCCESS;
        return MATRIXSSL_SUCCESS;
    case 1:
    case 2:
        /* one record decrypted in place to the front: n plaintext bytes */
        VF_ASSUME(k >= hdr + aead_extra(ssl) && k <= L);
        if (pick == 2)
        {
            n = 2;
            VF_ASSUME(k >= hdr + aead_extra(ssl) + 2 + (USING_TLS_1_3(ssl) ? 0 : explicit_iv(ssl)));
        }
        else
        {
            VF_ASSUME(n <= k - hdr - aead_extra(ssl) && n >= explicit_iv(ssl));
        }
        /* (in-place decryption only rewrites the consumed record; its
           contents are not observed by the API layer) */
        ssl->rec.len = k - hdr - aead_extra(ssl);
        *buf = b0 + k;
        *remaining = L - k;
        *len = n;
        g_off += k;
        g_last_k = k;
        g_last_n = n;
        g_last_rc = (pick == 1) ? SSL_PROCESS_DATA : SSL_ALERT;
        return g_last_rc;
    case 3:
        /* response (flight or alert) encoded over the input buffer */
        VF_ASSUME(n <= size);
        if (USING_TLS_1_3(ssl))
        {
            VF_ASSUME(k <= L);
            *buf = b0 + k;
        }
        *len = n;
        g_off += L; /* the rest of the input is dropped by design */
        g_last_n = n;
        g_last_rc = SSL_SEND_RESPONSE;
        return SSL_SEND_RESPONSE;
    case 4:
        /* growth requests: none needed, one concrete larger size, or beyond the maximum */
        *requiredLen = vf_bool() ? (uint32) VF_GROWN : (vf_bool() ? L + 1 : (uint32) SSL_MAX_BUF_SIZE + 1 + vf_u8());
        VF_ASSUME(*requiredLen > L);
        g_last_req = *requiredLen;
        g_last_rc = SSL_PARTIAL;
        return SSL_PARTIAL;
    case 5:
        /* the decoder asks for a larger buffer at most once per message */
        VF_ASSUME(!g_full_done);
        g_full_done = 1;
        *requiredLen = vf_bool() ? (uint32) VF_GROWN : (vf_bool() ? (uint32) (vf_u8() % (VF_NMAX + 1)) : (uint32) SSL_MAX_BUF_SIZE + 1 + vf_u8());
        *len = 0;
        g_off += L; /* the rest of the input is dropped by design */
        g_last_req = *requiredLen;
        g_last_rc = SSL_FULL;
        return SSL_FULL;
    default:
        *error = -(int32) (1 + (vf_u8() & 0x3f));
        g_last_rc = MATRIXSSL_ERROR;
        return MATRIXSSL_ERROR;
    }
}

static int suffix_intact(const ssl_t *ssl, uint32 at)
{
    uint32 i;
    int ok = 1;
    for (i = 0; i < VF_NMAX; i++)
    {
        if (i < (uint32) ssl->inlen)
        {
            ok &= (at + i < (uint32) ssl->insize) && (g_off + i < VF_NMAX) && ssl->inbuf[at + i] == ORIG(g_off + i);
        }
    }
    return ok;
}

static void buffers_ri(const ssl_t *ssl, const char *unused)
{
    (void) unused;
#ifdef VF_CBMC
    {
        int j, in_ok = 0, out_ok = 0;
        for (j = 0; j < 4; j++)
        {
            in_ok |= (ssl->inbuf == pool_base(j) && pool_sz[j] == (size_t) ssl->insize);
            out_ok |= (ssl->outbuf == pool_base(j) && pool_sz[j] == (size_t) ssl->outsize);
        }
        VF_ASSERT(g_heap_bad == 0, "c08.api.block_operations_inside_live_buffers");
        VF_ASSERT(in_ok && out_ok, "c08.api.buffer_pointers_match_allocation_sizes");
    }
#endif
    VF_ASSERT(ssl->inbuf != NULL && ssl->insize > 0 && ssl->inlen >= 0 && ssl->inlen <= ssl->insize, "c08.api.inbuf_invariant");
    VF_ASSERT(ssl->outbuf != NULL && ssl->outsize > 0 && ssl->outlen >= 0 && ssl->outlen <= ssl->outsize, "c08.api.outbuf_invariant");
    VF_ASSERT(ssl->insize <= SSL_MAX_BUF_SIZE && ssl->outsize <= SSL_MAX_BUF_SIZE + VF_NMAX, "c08.api.buffers_bounded");
}

VF_MAIN
{
    ssl_t *ssl = &S;
    unsigned char *pt = NULL;
    uint32 ptlen = 0, bytes, i, L, pre_bflags = 0;
    int32 rc;

    VF_HAVOC(S, ssl_t);
    ssl->activeVersion = vf_version(1);
    ssl->flags = vf_u32();
#ifdef VF_AEAD
    ssl->flags |= SSL_FLAGS_AEAD_R | SSL_FLAGS_READ_SECURE;
#endif
    ssl->bFlags = vf_u8() & (BFLAG_CLOSE_AFTER_SENT | BFLAG_HS_COMPLETE);
    ssl->hsState = vf_bool() ? SSL_HS_DONE : (int32) vf_u8();
    vf_cipher_init(&S_cipher);
    ssl->cipher = &S_cipher;
    ssl->deBlockSize = vf_bool() ? 16 : (vf_bool() ? 8 : 0);
    ssl->enBlockSize = ssl->deBlockSize;
    ssl->recordHeadLen = ACTV_VER(ssl, v_dtls_any) ? DTLS_HEADER_LEN : SSL3_HEADER_LEN;
    ssl->rec.len = vf_u16();
    ssl->sid = NULL;
    ssl->bufferPool = NULL;
    ssl->appDataExch = 0;

    /* buffer sizes are concrete (symbolic object sizes are out of reach);
       fill levels, growth requests and everything else stay symbolic */
    ssl->insize = VF_NMAX;
    ssl->outsize = VF_NOUTSZ;
#ifdef VF_CBMC
    ssl->inbuf = P0;
    pool_sz[0] = ssl->insize;
    ssl->outbuf = P1;
    pool_sz[1] = ssl->outsize;
#else
    ssl->inbuf = (unsigned char *) malloc(ssl->insize);
    ssl->outbuf = (unsigned char *) malloc(ssl->outsize);
    VF_ASSUME(ssl->inbuf != NULL && ssl->outbuf != NULL);
#endif
    ssl->inlen = vf_u8();
    bytes = vf_u8();
    /* caller contract: bytes <= what matrixSslGetReadbuf offered */
    VF_ASSUME(ssl->inlen <= ssl->insize && bytes <= (uint32) (ssl->insize - ssl->inlen));
    ssl->outlen = vf_u8();
    VF_ASSUME(ssl->outlen <= ssl->outsize);
    L = ssl->inlen + bytes;
    for (i = 0; i < VF_NMAX; i++)
    {
        if (i < (uint32) ssl->insize)
        {
            ssl->inbuf[i] = ORIG(i);
        }
        if (i < (uint32) ssl->outsize)
        {
            ssl->outbuf[i] = vf_u8();
        }
    }

#if VF_OP == 1
    {
        /* matrixSslSentData: partial sends keep the unsent tail, in order */
        static unsigned char out0[VF_NMAX];
        int32 outlen0 = ssl->outlen;
        int ok = 1;
        memcpy(out0, ssl->outbuf, ssl->outsize);
        VF_ASSUME(bytes <= (uint32) ssl->outlen); /* caller contract */
        rc = matrixSslSentData(ssl, bytes);
        buffers_ri(ssl, "");
        VF_ASSERT(ssl->outlen == outlen0 - (int32) bytes, "c18.sent.accounting");
        for (i = 0; i < VF_NMAX; i++)
        {
            if (i < (uint32) ssl->outlen)
            {
                ok &= (ssl->outbuf[i] == out0[bytes + i]);
            }
        }
        VF_ASSERT(ok, "c18.sent.unsent_tail_preserved");
        if (ssl->outlen > 0)
        {
            VF_REACH("sent_partial");
            VF_ASSERT(rc == MATRIXSSL_REQUEST_SEND, "c18.sent.partial_requests_send");
        }
        else
        {
            VF_REACH("sent_all");
            VF_ASSERT(rc == MATRIXSSL_SUCCESS || rc == MATRIXSSL_REQUEST_CLOSE || rc == MATRIXSSL_HANDSHAKE_COMPLETE, "c18.sent.documented_status");
            VF_ASSERT(!(ssl->bFlags & BFLAG_CLOSE_AFTER_SENT) || bytes == 0 || rc == MATRIXSSL_REQUEST_CLOSE, "c15.sent.close_after_alert");
        }
    }
#else

    g_phase = 1;
    pre_bflags = ssl->bFlags;
    rc = matrixSslReceivedData(ssl, bytes, &pt, &ptlen);

    /* whichever call notices that the handshake completed does the same
       bookkeeping (the session is saved for resumption exactly once), so the
       result does not depend on what else arrived in the same read */
    if (!(pre_bflags & BFLAG_HS_COMPLETE) && (ssl->bFlags & BFLAG_HS_COMPLETE))
    {
        VF_REACH("completion_noticed");
        VF_ASSERT(g_getsid == 1, "c18.api.completion_saves_session_whatever_was_coalesced");
    }
    else
    {
        VF_ASSERT(g_getsid == 0, "c18.api.session_saved_only_at_completion");
    }
    VF_ASSERT(g_front_bad == 0, "c18.api.decoder_always_at_buffer_front");
    VF_ASSERT(g_len_bad == 0, "c08.api.decoder_length_within_buffer");
    VF_ASSERT(g_stream_bad == 0, "c18.api.decoder_sees_unconsumed_suffix");
    buffers_ri(ssl, "");
    if (L == 0)
    {
        VF_ASSERT(rc == PS_SUCCESS && g_dec_calls == 0, "c18.api.poll_is_noop");
    }
    if (rc == MATRIXSSL_APP_DATA || rc == MATRIXSSL_RECEIVED_ALERT)
    {
        uint32 iv = USING_TLS_1_3(ssl) ? 0 : explicit_iv(ssl);
        VF_REACH("delivered");
        /* only what the decoder authenticated and released is reported */
        VF_ASSERT(g_last_rc == (rc == MATRIXSSL_APP_DATA ? SSL_PROCESS_DATA : SSL_ALERT), "c01.api.app_data_only_from_process_data");
        VF_ASSERT(pt == ssl->inbuf + iv && ptlen == g_last_n - (rc == MATRIXSSL_APP_DATA ? iv : 0), "c01.api.delivered_region_is_decoders");
        VF_ASSERT(pt + ptlen <= ssl->inbuf + g_last_k, "c08.api.delivered_inside_consumed_record");
        VF_ASSERT((uint32) ssl->inlen + g_off == L, "c18.api.inlen_accounts_for_consumed");
        VF_ASSERT(suffix_intact(ssl, g_last_k), "c18.api.following_records_intact");
        /* the application is done with the plaintext */
        g_phase = 2;
        rc = matrixSslProcessedData(ssl, &pt, &ptlen);
        VF_REACH("processed");
        VF_ASSERT(g_front_bad == 0 && g_len_bad == 0, "c18.api.processed_decoder_at_front");
        VF_ASSERT(g_stream_bad == 0, "c18.api.processed_compaction_keeps_stream");
        buffers_ri(ssl, "");
        if (g_dec_calls == 1)
        {
            /* nothing was left to decode */
            VF_ASSERT(g_off == L && ssl->inlen == 0, "c18.api.processed_all_consumed");
            VF_ASSERT(rc == MATRIXSSL_SUCCESS || rc == MATRIXSSL_REQUEST_SEND || rc == MATRIXSSL_REQUEST_RECV, "c18.api.processed_status");
        }
    }
    else if (rc == MATRIXSSL_REQUEST_RECV || rc == MATRIXSSL_HANDSHAKE_COMPLETE || rc == MATRIXSSL_SUCCESS)
    {
        VF_REACH("recv_more");
        VF_ASSERT((uint32) ssl->inlen + g_off == L, "c18.api.recv_inlen_accounts_for_consumed");
        VF_ASSERT(suffix_intact(ssl, 0), "c18.api.recv_keeps_unconsumed_bytes_at_front");
        /* the caller is only sent back to the socket when nothing decodable
           is left: whatever arrived coalesced is processed in this call */
        VF_ASSERT(ssl->inlen == 0 || g_last_rc == SSL_PARTIAL, "c18.api.no_undecoded_input_left_behind");
        if (g_last_rc == SSL_PARTIAL)
        {
            VF_REACH("partial");
            VF_ASSERT(rc == MATRIXSSL_REQUEST_RECV, "c18.api.partial_requests_recv");
            VF_ASSERT((uint32) ssl->insize >= g_last_req, "c18.api.partial_buffer_grown");
            VF_ASSERT(ssl->inlen > 0 || g_full_done, "c18.api.partial_keeps_bytes");
        }
        if (rc == MATRIXSSL_HANDSHAKE_COMPLETE)
        {
            VF_ASSERT(ssl->hsState == SSL_HS_DONE, "c01.api.complete_only_when_done");
        }
    }
    else if (rc == MATRIXSSL_REQUEST_SEND)
    {
        VF_REACH("send");
        VF_ASSERT(g_last_rc == SSL_SEND_RESPONSE || g_last_rc == DTLS_RETRANSMIT, "c18.api.send_only_after_response");
    }
    else
    {
        VF_REACH("error");
        VF_ASSERT(rc < 0, "c08.api.documented_status");
        VF_ASSERT(pt == NULL && ptlen == 0, "c01.api.error_delivers_nothing");
    }
#endif
    VF_REACH("end");
}
