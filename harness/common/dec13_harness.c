/* dec13_harness.c - one call of the real TLS 1.3 record decoder
 * (matrixSslDecodeTls13 and its static helpers in tls13Decode.c, psParse*
 * helpers of core) from an arbitrary RI-ssl state on an arbitrary VF_N-byte
 * buffer.
 *
 * Stubbed: ssl->decrypt (-> vf_decrypt13; with -DVF_REAL_AEAD the real
 * csAesGcmDecryptTls13 / csChacha20Poly1305IetfDecryptTls13 are used and only
 * the AEAD primitive is a stub), tls13ParseHandshakeMessage, tls13EncodeAlert,
 * sslEncodeResponse.
 *
 * Groups: C01 app-data gate, C02 inner-plaintext strip, C15 poison/alerts,
 * C18 SSL_PARTIAL purity; memory safety (C08) is CBMC's instrumentation.
 */
#include "vf.h"
#include "matrixssl/tls13Decode.c"
#include "ssl_state.h"
#include "trace_stubs.h"

static int g_dec_calls, g_hs_calls, g_alert_calls, g_resp_calls;
static unsigned char *g_dec_in, *g_dec_out;
static uint32 g_dec_len;
static int32 g_dec_rc;
static unsigned char g_alert_type;
static uint8_t g_hs_state_at_parse;
static psTls13Psk_t S_psk;
static psTls13SessionParams_t S_pskparams;

static int g_cb_range_bad;
#ifndef VF_REAL_AEAD
static int32 vf_decrypt13(void *ctx, unsigned char *in, unsigned char *out, uint32 len)
{
    int32 rc = vf_i32();

    g_dec_calls++;
    g_dec_in = in;
    g_dec_out = out;
    g_dec_len = len;
    if (len > VF_N || in < S_inbuf || in + len > S_inbuf + VF_N || out < S_inbuf || out + len > S_inbuf + VF_N)
    {
        g_cb_range_bad++;
        g_dec_rc = -1;
        return -1;
    }
    /* contract of the real TLS 1.3 AEAD open functions (decided in C02.a):
       a record without room for the tag and the inner type is rejected */
    if (len <= TLS_GCM_TAG_LEN)
    {
        rc = -1;
    }
    g_dec_rc = rc;
    if (rc < 0)
    {
        return rc;
    }
    /* in-situ: the (arbitrary) input bytes stand for arbitrary plaintext */
    return (int32) len;
}
#endif

static int32_t tls13ParseHandshakeMessage(ssl_t *ssl, unsigned char **bufStart, unsigned char *bufEnd)
{
    uint8_t k = vf_u8();
    uint32 adv;

    g_hs_calls++;
    g_hs_state_at_parse = ssl->hsState;
    ssl->hsState = vf_u8();
    switch (k & 7)
    {
    case 0:
    case 1:
        /* parsed one message: advance by 1..remaining */
        adv = vf_u32();
        VF_ASSUME(adv >= 1 && adv <= (uint32) (bufEnd - *bufStart));
        *bufStart += adv;
        return PS_SUCCESS;
    case 2:
        return SSL_PARTIAL;
    case 3:
        return SSL_NO_TLS_1_3;
    case 4:
        ssl->err = vf_u8();
        return MATRIXSSL_ERROR;
    case 5:
        return SSL_ENCODE_RESPONSE;
    default:
    {
        /* a PS_* failure code (not one of the decode status codes) */
        int32 rc = vf_i32();
        VF_ASSUME(rc < 0 && rc > SSL_FULL);
        if (vf_bool())
        {
            ssl->err = vf_u8();
        }
        return rc;
    }
    }
}

static int32 vf_encode13(sslBuf_t *out, uint32_t *requiredLen)
{
    uint8_t k = vf_u8();
    uint32 n;

    switch (k & 3)
    {
    case 0:
        n = vf_u32();
        VF_ASSUME(n <= (uint32) out->size);
        out->end = out->start + n;
        return MATRIXSSL_SUCCESS;
    case 1:
        *requiredLen = vf_u32();
        return SSL_FULL;
    default:
    {
        int32 rc = vf_i32();
        VF_ASSUME(rc < 0 && rc > SSL_FULL); /* PS_* failure codes, not a decode status */
        return rc;
    }
    }
}
int32_t tls13EncodeAlert(ssl_t *ssl, unsigned char type, sslBuf_t *out, uint32_t *requiredLen)
{
    g_alert_calls++;
    g_alert_type = type;
    return vf_encode13(out, requiredLen);
}
int32 sslEncodeResponse(ssl_t *ssl, psBuf_t *out, uint32 *requiredLen)
{
    g_resp_calls++;
    return vf_encode13(out, requiredLen);
}

VF_MAIN
{
    ssl_t *ssl = &S;
    unsigned char *in;
    uint32 len, size, remaining = 0, requiredLen = 0, len0;
    int32 error = 0, rc;
    unsigned char alertLevel = 0, alertDescription = 0;
    ssl_t pre;
    unsigned char in_copy[VF_N];
    psSize_t pre_maxed;

    VF_HAVOC(S, ssl_t);
    vf_ssl_scalars(ssl, 1);
    vf_ssl_pointers(ssl);
    ssl->activeVersion = v_tls_1_3 | (vf_bool() ? v_tls_negotiated : 0);
    ssl->recordHeadLen = SSL3_HEADER_LEN;
    ssl->hshakeHeadLen = SSL3_HANDSHAKE_HEADER_LEN;
    /* RI: TLS 1.3 read protection is always AEAD (tls13ActivateReadKeys) */
    if (ssl->flags & SSL_FLAGS_READ_SECURE)
    {
        ssl->flags |= SSL_FLAGS_AEAD_R;
    }
    VF_ASSUME(!(ssl->flags & (SSL_FLAGS_ERROR | SSL_FLAGS_CLOSED)));
#ifndef VF_REAL_AEAD
    ssl->decrypt = vf_decrypt13;
#endif
    ssl->tls13ServerEarlyDataEnabled = vf_bool();
    ssl->tls13SessionMaxEarlyData = vf_u16();
    ssl->tls13ReceivedEarlyDataLen = vf_u16();
    ssl->tls13EarlyDataStatus = vf_u32();
    ssl->extFlags.got_early_data = vf_bool();
    if (vf_bool())
    {
        VF_HAVOC(S_psk, psTls13Psk_t);
        S_psk.params = NULL;
        if (vf_bool())
        {
            VF_HAVOC(S_pskparams, psTls13SessionParams_t);
            S_pskparams.maxEarlyData = vf_u32();
            S_psk.params = &S_pskparams;
        }
        ssl->sec.tls13ChosenPsk = &S_psk;
    }
    else
    {
        ssl->sec.tls13ChosenPsk = NULL;
    }

    vf_bytes(S_inbuf, VF_N);
    len = vf_u32();
    VF_ASSUME(len <= VF_N);
    remaining = vf_u32();
    size = VF_N;
    in = S_inbuf;
    len0 = len;
    pre = S;
    memcpy(in_copy, S_inbuf, VF_N);
    pre_maxed = (pre.sec.tls13ChosenPsk != NULL && pre.sec.tls13ChosenPsk->params != NULL) ?
        PS_MIN(pre.tls13SessionMaxEarlyData, pre.sec.tls13ChosenPsk->params->maxEarlyData) :
        pre.tls13SessionMaxEarlyData;

    rc = matrixSslDecodeTls13(ssl, &in, &len, size, &remaining, &requiredLen,
            &error, &alertLevel, &alertDescription);

    if (rc == SSL_PROCESS_DATA)
    {
        VF_REACH("process_data");
#ifdef VF_GROUP_C01
        VF_ASSERT(pre.flags & SSL_FLAGS_READ_SECURE, "c01.tls13_decrypting");
        VF_ASSERT(g_dec_calls == 1 && g_dec_rc >= 0, "c01.tls13_decrypt_ok");
        VF_ASSERT(g_hs_calls == 0, "c01.tls13_no_state_change_before_data");
        VF_ASSERT(pre.hsState == SSL_HS_DONE ||
            ((pre.flags & SSL_FLAGS_SERVER) && pre.hsState == SSL_HS_TLS_1_3_WAIT_EOED &&
             pre.tls13ServerEarlyDataEnabled),
            "c01.tls13_hs_done_or_early_data");
        if (pre.hsState == SSL_HS_TLS_1_3_WAIT_EOED)
        {
            VF_ASSERT((uint32) pre.tls13ReceivedEarlyDataLen + len <= pre_maxed, "c01.tls13_early_data_limit");
        }
        VF_ASSERT(g_dec_in + g_dec_len == in, "c01.tls13_decrypt_covers_record");
        VF_ASSERT(in <= S_inbuf + len0, "c01.tls13_record_inside_input");
#endif
#ifdef VF_GROUP_C02
        {
            /* inner plaintext = content || type(23) || zeros, inside the
               decrypted region (record minus tag) */
            uint32 ct = g_dec_len - TLS_GCM_TAG_LEN;
            uint32 i;
            VF_SHOW(len); VF_SHOW(ct); VF_SHOW(g_dec_len); VF_SHOW(len0); VF_SHOW(g_dec_in - S_inbuf);
            VF_ASSERT(len < ct, "c02.tls13_len_inside");
            VF_ASSERT(len <= TLS_1_3_MAX_PLAINTEXT_FRAGMENT_LEN, "c02.tls13_pt_limit");
            VF_ASSERT(in_copy[(g_dec_in - S_inbuf) + len] == SSL_RECORD_TYPE_APPLICATION_DATA, "c02.tls13_inner_type");
            for (i = len + 1; i < ct && i < VF_N; i++)
            {
                VF_ASSERT(in_copy[(g_dec_in - S_inbuf) + i] == 0, "c02.tls13_padding_zero");
            }
            for (i = 0; i < len && i < VF_N; i++)
            {
                VF_ASSERT(S_inbuf[i] == in_copy[(g_dec_in - S_inbuf) + i], "c02.tls13_content_exact");
            }
        }
#endif
    }
#ifdef VF_GROUP_C02
    if (g_dec_calls >= 1 && g_dec_rc < 0)
    {
        VF_REACH("decrypt_failed");
        VF_ASSERT(rc != SSL_PROCESS_DATA && rc != SSL_ALERT, "c02.tls13_decrypt_fail_no_data");
        VF_ASSERT(g_hs_calls == 0, "c02.tls13_decrypt_fail_no_parse");
        if (rc == MATRIXSSL_SUCCESS || (rc == SSL_SEND_RESPONSE && ssl->err == SSL_ALERT_NONE))
        {
            /* the only tolerated undecryptable records: early data a server skips */
            VF_ASSERT((pre.flags & SSL_FLAGS_SERVER) && !pre.tls13ServerEarlyDataEnabled &&
                pre.extFlags.got_early_data, "c02.tls13_skip_only_rejected_early_data");
        }
        else
        {
            VF_ASSERT(ssl->err == SSL_ALERT_BAD_RECORD_MAC, "c02.tls13_bad_record_mac");
        }
    }
#endif
#ifdef VF_GROUP_C15
    if (g_dec_calls >= 1 && g_dec_rc < 0 && (rc == MATRIXSSL_SUCCESS || (rc == SSL_SEND_RESPONSE && ssl->err == SSL_ALERT_NONE)))
    {
        VF_REACH("early_data_skipped");
        VF_ASSERT((pre.flags & SSL_FLAGS_SERVER) && !pre.tls13ServerEarlyDataEnabled &&
            pre.extFlags.got_early_data, "c15.skip_only_rejected_early_data");
        VF_ASSERT(ssl->tls13ReceivedEarlyDataLen <= pre.tls13SessionMaxEarlyData, "c15.skip_within_limit");
        VF_ASSERT(ssl->tls13ReceivedEarlyDataLen >= pre.tls13ReceivedEarlyDataLen, "c15.skip_counter_monotone");
    }
    if (ssl->err != SSL_ALERT_NONE)
    {
        VF_REACH("err_set");
        VF_ASSERT(rc != SSL_PROCESS_DATA && rc != MATRIXSSL_SUCCESS && rc != SSL_ALERT && rc != SSL_PARTIAL,
            "c15.tls13_no_success_on_error");
        if (rc == SSL_SEND_RESPONSE)
        {
            VF_ASSERT(ssl->flags & SSL_FLAGS_ERROR, "c15.tls13_poison_on_alert_sent");
            VF_ASSERT(g_alert_calls >= 1 && g_alert_type == (unsigned char) ssl->err, "c15.tls13_alert_encoded");
            VF_ASSERT(alertLevel == SSL_ALERT_LEVEL_FATAL && alertDescription == (unsigned char) ssl->err, "c15.tls13_alert_reported");
        }
    }
    if (rc == SSL_ALERT)
    {
        VF_REACH("alert_received");
        if (alertDescription == SSL_ALERT_CLOSE_NOTIFY)
        {
            VF_ASSERT(ssl->flags & SSL_FLAGS_CLOSED, "c15.tls13_close_notify_closes");
        }
        else
        {
            VF_ASSERT(ssl->flags & SSL_FLAGS_ERROR, "c15.tls13_alert_poisons");
        }
    }
    VF_ASSERT(!(pre.flags & SSL_FLAGS_ERROR) || (ssl->flags & SSL_FLAGS_ERROR), "c15.tls13_error_sticky");
#endif
#ifdef VF_GROUP_C18
    if (rc == SSL_PROCESS_DATA || rc == SSL_ALERT)
    {
        /* hand-off to matrixSslProcessedData, which compacts the input
           buffer by rec.len + recordHeadLen: that must be exactly what this
           call consumed, or the following records are misaligned */
        VF_REACH("handoff");

        VF_ASSERT((uint32) (in - S_inbuf) == (uint32) ssl->rec.len + ssl->recordHeadLen, "c18.tls13_consumed_equals_record_bookkeeping");
    }
    if (rc == SSL_PARTIAL)
    {
        VF_REACH("partial");
        VF_ASSERT(in == S_inbuf && len == len0, "c18.tls13_partial_buf_unchanged");
        VF_ASSERT(requiredLen > len0, "c18.tls13_partial_needs_more");
        VF_ASSERT(requiredLen <= TLS_1_3_MAX_CIPHERTEXT_LEN + TLS_REC_HDR_LEN + VF_N, "c18.tls13_partial_required_bounded");
        VF_ASSERT(memcmp(in_copy, S_inbuf, VF_N) == 0, "c18.tls13_partial_bytes_untouched");
        VF_ASSERT(ssl->flags == pre.flags && ssl->hsState == pre.hsState && ssl->err == pre.err &&
            g_dec_calls == 0 && g_hs_calls == 0 && g_alert_calls == 0 && g_resp_calls == 0,
            "c18.tls13_partial_state_unchanged");
    }
#endif
    VF_ASSERT(g_cb_range_bad == 0, "c08.tls13_cipher_callback_ranges_inside_input_buffer");
    (void) in_copy;
    (void) pre_maxed;
    VF_REACH("end");
}
