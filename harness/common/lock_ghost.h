/* lock_ghost.h - sequential lock-discipline ghost (C20) shared by harnesses
 * that run code touching mutex-protected global state.
 *  - psLockMutex/psUnlockMutex are stubs that track which mutexes are held
 *  - VF_GUARD(obj, lock) (inserted by derive.py around every textual use of a
 *    shared object) asserts that `lock` is held at the access
 */
#ifndef VF_LOCK_GHOST_H
#define VF_LOCK_GHOST_H

#define VF_MAX_LOCKS 4
static const void *vf_held[VF_MAX_LOCKS];
static int vf_nheld;
static int vf_lock_ops, vf_guard_hits, vf_critical_sections;
static int vf_bad_unguarded, vf_bad_relock, vf_bad_nested, vf_bad_unlock;

static int vf_is_held(const void *m)
{
    int i;
    for (i = 0; i < VF_MAX_LOCKS; i++)
    {
        if (i < vf_nheld && vf_held[i] == m)
        {
            return 1;
        }
    }
    return 0;
}
void psLockMutex(psMutex_t *mutex)
{
    vf_lock_ops++;
    if (vf_is_held(mutex))
    {
        vf_bad_relock++;      /* self-deadlock on a non-recursive mutex */
        return;
    }
    if (vf_nheld > 0)
    {
        vf_bad_nested++;      /* second mutex while one is held: lock-order hazard */
    }
    if (vf_nheld < VF_MAX_LOCKS)
    {
        vf_held[vf_nheld++] = mutex;
    }
    vf_critical_sections++;
}
void psUnlockMutex(psMutex_t *mutex)
{
    vf_lock_ops++;
    if (vf_nheld > 0 && vf_held[vf_nheld - 1] == mutex)
    {
        vf_nheld--;
        return;
    }
    vf_bad_unlock++;          /* unlock of a mutex that is not held */
}
static void vf_touch(const void *lock)
{
    vf_guard_hits++;
    if (!vf_is_held(lock))
    {
        vf_bad_unguarded++;
    }
}
#define VF_GUARD(obj, lock) (*(vf_touch(&(lock)), &(obj)))

/* the discipline, asserted after the operation returned */
#define VF_ASSERT_LOCK_DISCIPLINE(prefix) do { \
        VF_ASSERT(vf_bad_unguarded == 0, prefix ".shared_access_under_lock"); \
        VF_ASSERT(vf_bad_relock == 0, prefix ".no_relock"); \
        VF_ASSERT(vf_bad_nested == 0, prefix ".no_nested_locks"); \
        VF_ASSERT(vf_bad_unlock == 0, prefix ".unlock_matches_lock"); \
        VF_ASSERT(vf_nheld == 0, prefix ".all_locks_released_on_return"); \
        VF_ASSERT(vf_critical_sections <= 1, prefix ".single_critical_section"); \
    } while (0)
#endif
