/* enc_gate.c - C01.d / C15.c: application data is sealed only on a live,
 * completed session.
 * VF_MODE 12: the real matrixSslEncode (matrixssl/sslEncode.c) with
 *   writeRecordHeader / encryptRecord stubbed (ghost: reached);
 * VF_MODE 13: the real tls13EncodeAppData / isGoodStateForAppDataEncrypt
 *   (matrixssl/tls13Encode.c) with tls13WriteRecordHeader / tls13Encrypt stubbed.
 * Oracle: the sealing stubs are reached only if the session is neither ERROR
 * nor CLOSED and hsState == DONE (TLS 1.3: or one of the early-data flags is
 * set - the property's own exception); otherwise a negative code is returned
 * and nothing is written.
 */
#include "vf.h"
#if VF_MODE == 12
# include "matrixssl/sslEncode.c"
#else
# include "matrixssl/matrixsslImpl.h"
/* the real definitions are renamed by derive.py; declare the stubs before use */
static int32_t tls13WriteRecordHeader(ssl_t *ssl, uint8_t recordType, uint8_t hsMsgType, unsigned char *pt, psSizeL_t ptLen,
    psSizeL_t ptTotalLen, psSizeL_t *padLen, psSizeL_t offset, psBool_t encrypt, unsigned char **c, const unsigned char *end,
    unsigned char **encryptStart, unsigned char **encryptEnd);
static int32_t tls13Encrypt(ssl_t *ssl, unsigned char *pt, unsigned char *ct, psSize_t ptLen, unsigned char recordType, psSize_t recLen);
# include "matrixssl/tls13Encode.c"
#endif
#include "ssl_state.h"
#include "trace_stubs.h"

static int g_hdr, g_seal;
#if VF_MODE == 12
int32_t writeRecordHeader(ssl_t *ssl, uint8_t type, uint8_t hsType, psSize_t *messageSize, uint8_t *padLen,
    unsigned char **encryptStart, const unsigned char *end, unsigned char **c)
{
    g_hdr++;
    if (vf_bool())
    {
        return SSL_FULL;
    }
    *padLen = 0;
    *encryptStart = *c + ssl->recordHeadLen;
    *c += ssl->recordHeadLen;
    return PS_SUCCESS;
}
int32 encryptRecord(ssl_t *ssl, int32 type, int32 hsMsgType, int32 messageSize, int32 padLen, unsigned char *pt,
    sslBuf_t *out, unsigned char **c)
{
    g_seal++;
    return vf_bool() ? PS_SUCCESS : MATRIXSSL_ERROR;
}
int32_t tls13EncodeAppData(ssl_t *ssl, unsigned char *buf, uint32_t size, unsigned char *ptBuf, uint32_t *len)
{
    return MATRIXSSL_ERROR; /* TLS 1.3 sessions are the subject of VF_MODE 13 */
}
#else
static int32_t tls13WriteRecordHeader(ssl_t *ssl, uint8_t recordType, uint8_t hsMsgType, unsigned char *pt, psSizeL_t ptLen,
    psSizeL_t ptTotalLen, psSizeL_t *padLen, psSizeL_t offset, psBool_t encrypt, unsigned char **c, const unsigned char *end,
    unsigned char **encryptStart, unsigned char **encryptEnd)
{
    g_hdr++;
    if (vf_bool())
    {
        return SSL_FULL;
    }
    *encryptStart = *c + TLS_REC_HDR_LEN;
    *encryptEnd = *encryptStart + ptLen + 1;
    *c += TLS_REC_HDR_LEN;
    return PS_SUCCESS;
}
static int32_t tls13Encrypt(ssl_t *ssl, unsigned char *pt, unsigned char *ct, psSize_t ptLen, unsigned char recordType, psSize_t recLen)
{
    g_seal++;
    return vf_bool() ? PS_SUCCESS : MATRIXSSL_ERROR;
}
#endif

static unsigned char wbuf[64], pt[8];

VF_MAIN
{
    ssl_t *ssl = &S;
    ssl_t pre;
    uint32 len = vf_u8() % 9;
    int32 rc;

    VF_HAVOC(S, ssl_t);
    vf_ssl_scalars(ssl, VF_MODE == 13);
    vf_ssl_pointers(ssl);
#if VF_MODE == 12
    VF_ASSUME(!(ssl->activeVersion & v_tls_1_3_any));
#else
    ssl->activeVersion = v_tls_1_3 | v_tls_negotiated;
    ssl->recordHeadLen = SSL3_HEADER_LEN;
    ssl->tls13ClientEarlyDataEnabled = vf_bool();
    ssl->tls13ServerEarlyDataEnabled = vf_bool();
    ssl->tls13PadLen = 0;
    ssl->extFlags.got_early_data = vf_bool();
#endif
    ssl->bFlags &= ~BFLAG_STOP_BEAST;
    vf_bytes(pt, sizeof(pt));
    pre = S;

    rc = matrixSslEncode(ssl, wbuf, sizeof(wbuf), pt, &len);

    if (g_hdr > 0 || g_seal > 0)
    {
        VF_REACH("sealing_reached");
        VF_ASSERT(!(pre.flags & SSL_FLAGS_ERROR), "c15.no_seal_after_error");
        VF_ASSERT(!(pre.flags & SSL_FLAGS_CLOSED), "c15.no_seal_after_close");
#if VF_MODE == 12
        VF_ASSERT(pre.hsState == SSL_HS_DONE, "c01.no_seal_before_handshake_done");
#else
        VF_ASSERT(pre.hsState == SSL_HS_DONE || pre.tls13ClientEarlyDataEnabled || pre.tls13ServerEarlyDataEnabled,
            "c01.no_seal_before_handshake_done");
#endif
    }
    else
    {
        VF_REACH("refused");
        VF_ASSERT(rc < 0, "c01.refusal_is_error_code");
    }
    if (rc > 0)
    {
        VF_ASSERT(g_seal == 1, "c01.positive_return_means_sealed");
    }
    VF_REACH("end");
}
#if VF_MODE == 13
int32 matrixSslEncode(ssl_t *ssl, unsigned char *buf, uint32 size, unsigned char *ptBuf, uint32 *len)
{
    return tls13EncodeAppData(ssl, buf, size, ptBuf, len);
}
#endif
