/* dec12_harness.c - one call of the real TLS<=1.2 / DTLS record decoder
 * (matrixSslDecodeTls12AndBelow and its static helpers in sslDecode.c, plus
 * dtls.c's replay window) from an arbitrary RI-ssl state on an arbitrary
 * VF_N-byte buffer.
 *
 * Stubbed (renamed to *__real by derive.py or simply not linked):
 *   ssl->decrypt, ssl->verifyMac (function pointers -> vf_decrypt, vf_verifyMac)
 *   parseSSLHandshake, sslEncodeResponse, matrixSslEncodeClientHello,
 *   sslActivateReadCipher, sslCreateKeys, psSha{1,256,384}{PreInit,Init,Update,Final}
 *
 * Assertion groups (selected with -DVF_GROUP_xxx):
 *   C01  app-data gate            C02  CBC unpad / MAC binding
 *   C06  ChangeCipherSpec gate    C15  poison on alert / no success on error
 *   C16  DTLS epoch gate          C18  SSL_PARTIAL is pure
 * Memory safety (C08) is CBMC's own instrumentation on the same build.
 */
#include "vf.h"
#include "matrixssl/sslDecode.c"
#include "ssl_state.h"
#include "trace_stubs.h"

#ifndef VF_DTLS
# define VF_DTLS 0
#endif

/* ---- ghost state ------------------------------------------------------ */
static int g_dec_calls, g_mac_calls, g_hs_calls, g_enc_calls, g_activate_calls, g_createkeys_calls;
static unsigned char *g_dec_in, *g_dec_out, *g_first_dec_in;
static uint32 g_dec_len;
static int32 g_dec_rc, g_mac_rc;
static unsigned char *g_mac_data, *g_mac_mac;
static uint32 g_mac_len;
static unsigned char g_mac_type;
static uint8_t g_hs_state_at_parse;
static int g_mac_after_dec;
static int g_cb_range_bad;
static int g_sha_updates;
static uint8_t g_hs_state_at_activate;
static uint32 g_flags_at_activate;

static int32 vf_decrypt(void *ctx, unsigned char *in, unsigned char *out, uint32 len)
{
    ssl_t *ssl = (ssl_t *) ctx;
    uint32 i;
    int32 rc = vf_i32();

    if (g_dec_calls == 0)
    {
        g_first_dec_in = in;
    }
    g_dec_calls++;
    g_dec_in = in;
    g_dec_out = out;
    g_dec_len = len;
    g_mac_after_dec = 0;
    /* what every real cipher callback relies on: both ranges lie inside the
       input buffer (they read/write len bytes) */
    if (len > VF_N || in < S_inbuf || in + len > S_inbuf + VF_N || out < S_inbuf || out + len > S_inbuf + VF_N)
    {
        g_cb_range_bad++;
        g_dec_rc = -1;
        return -1;
    }
    /* contract of the real AEAD open functions (decided in C02.a): a record
       not longer than explicit nonce + tag is rejected */
    if (ssl->flags & SSL_FLAGS_AEAD_R)
    {
        uint32 ovh = AEAD_TAG_LEN(ssl) + ((ssl->flags & SSL_FLAGS_NONCE_R) ? TLS_EXPLICIT_NONCE_LEN : 0);
        if (len <= ovh)
        {
            rc = -1;
        }
    }
    /* contract of the CBC decrypt functions: length multiple of block size */
    else if ((ssl->flags & SSL_FLAGS_READ_SECURE) && ssl->deBlockSize > 1 && (len % ssl->deBlockSize) != 0)
    {
        rc = -1;
    }
    g_dec_rc = rc;
    if (rc < 0)
    {
        return rc;
    }
    /* plaintext: arbitrary bytes.  The ciphertext bytes are arbitrary, so
       moving them to the output position yields arbitrary plaintext */
    for (i = 0; i < len && i < VF_N; i++)
    {
        out[i] = in[i];
    }
    return (int32) len;
}

static int32 vf_verifyMac(void *ctx, unsigned char type, unsigned char *data, uint32 len, unsigned char *mac)
{
    int32 rc = vf_i32();

    /* the real MAC callbacks hash len bytes at data and compare the
       deMacSize bytes at mac */
    if (len > VF_N || data < S_inbuf || data + len > S_inbuf + VF_N ||
        mac < S_inbuf || mac + ((ssl_t *) ctx)->deMacSize > S_inbuf + VF_N)
    {
        g_cb_range_bad++;
    }
    g_mac_calls++;
    g_mac_type = type;
    g_mac_data = data;
    g_mac_len = len;
    g_mac_mac = mac;
    g_mac_rc = rc;
    g_mac_after_dec = 1;
    return rc;
}

static int32 parseSSLHandshake(ssl_t *ssl, char *inbuf, uint32 len)
{
    uint8_t k = vf_u8();
    int32 rc;

    g_hs_calls++;
    g_hs_state_at_parse = ssl->hsState;
    ssl->hsState = vf_u8();
    switch (k & 7)
    {
    case 0: rc = MATRIXSSL_SUCCESS; break;
    case 1: rc = SSL_PROCESS_DATA; break;
    case 2: rc = MATRIXSSL_ERROR; break;
    case 3: rc = SSL_MEM_ERROR; break;
    case 4: rc = DTLS_RETRANSMIT; break;
    default: rc = vf_i32(); break;
    }
    /* contract: ssl->err (the alert to send) is only set on failure returns */
    if (rc != MATRIXSSL_SUCCESS && rc != SSL_PROCESS_DATA && rc != DTLS_RETRANSMIT && vf_bool())
    {
        ssl->err = vf_u8();
    }
    return rc;
}

static unsigned char *g_enc_start;
static int32 vf_encode_common(ssl_t *ssl, sslBuf_t *out, uint32 *requiredLen)
{
    uint8_t k = vf_u8();
    uint32 n;

    g_enc_calls++;
    g_enc_start = out->start;
    switch (k & 3)
    {
    case 0:
        n = vf_u32();
        VF_ASSUME(n <= (uint32) out->size);
        out->end = out->start + n;
        return MATRIXSSL_SUCCESS;
    case 1:
        *requiredLen = vf_u32();
        return SSL_FULL;
    default:
    {
        int32 rc = vf_i32();
        VF_ASSUME(rc < 0 && rc > SSL_FULL); /* PS_* failure codes, not a decode status */
        return rc;
    }
    }
}
int32 sslEncodeResponse(ssl_t *ssl, psBuf_t *out, uint32 *requiredLen)
{
    return vf_encode_common(ssl, out, requiredLen);
}
int32_t matrixSslEncodeClientHello(ssl_t *ssl, sslBuf_t *out, const psCipher16_t cipherSpec[],
    uint8_t cipherSpecLen, uint32 *requiredLen, tlsExtension_t *userExt, sslSessOpts_t *options)
{
    return vf_encode_common(ssl, out, requiredLen);
}
int32 sslActivateReadCipher(ssl_t *ssl)
{
    g_activate_calls++;
    g_hs_state_at_activate = ssl->hsState;
    g_flags_at_activate = ssl->flags;
    if (vf_bool())
    {
        return PS_FAILURE;
    }
    ssl->flags |= SSL_FLAGS_READ_SECURE;
    return PS_SUCCESS;
}
int32 sslCreateKeys(ssl_t *ssl)
{
    g_createkeys_calls++;
    return vf_bool() ? PS_FAILURE : PS_SUCCESS;
}
/* Lucky-13 dummy hashing: no functional effect */
int32_t psSha1Init(psSha1_t *s) { return 0; }
void psSha1Update(psSha1_t *s, const unsigned char *b, uint32_t l) { g_sha_updates++; }
void psSha1Final(psSha1_t *s, unsigned char *h) { }
int32_t psSha256Init(psSha256_t *s) { return 0; }
void psSha256Update(psSha256_t *s, const unsigned char *b, uint32_t l) { g_sha_updates++; }
void psSha256Final(psSha256_t *s, unsigned char *h) { }
int32_t psSha384Init(psSha384_t *s) { return 0; }
void psSha384Update(psSha384_t *s, const unsigned char *b, uint32_t l) { g_sha_updates++; }
void psSha384Final(psSha384_t *s, unsigned char *h) { }

/* ---- the harness ------------------------------------------------------ */
VF_MAIN
{
    ssl_t *ssl = &S;
    unsigned char *buf;
    uint32 len, size, remaining = 0, requiredLen = 0;
    int32 error = 0, rc;
    unsigned char alertLevel = 0, alertDescription = 0;
    ssl_t pre;
    sslSessionId_t pre_sid;
    unsigned char in_copy[VF_N];
    uint32 len0;

    VF_HAVOC(S, ssl_t);
    vf_ssl_scalars(ssl, 0);
    vf_ssl_pointers(ssl);
#if VF_DTLS
    VF_ASSUME(ssl->activeVersion & v_dtls_any);
    /* a session is either TLS or DTLS for its whole life (set once at session
       creation: matrixsslInitVer.c) */
    ssl->supportedVersions = vf_u32() & v_dtls_any;
#else
    VF_ASSUME(!(ssl->activeVersion & v_dtls_any));
    ssl->supportedVersions = vf_u32() & (v_tls_1_1 | v_tls_1_2 | v_tls_1_3);
#endif
    /* RI: this decoder is entered only for non-TLS1.3 sessions that are not
       already dead (entry guard of matrixSslDecode, decided in C15.a) */
    VF_ASSUME(!(ssl->flags & (SSL_FLAGS_ERROR | SSL_FLAGS_CLOSED)));
    ssl->decrypt = vf_decrypt;
    ssl->verifyMac = vf_verifyMac;
    ssl->encrypt = NULL;
    ssl->generateMac = NULL;
    /* RI: a secured non-AEAD read state has a MAC; AEAD state has none */
    if (ssl->flags & SSL_FLAGS_AEAD_R)
    {
        VF_ASSUME(ssl->flags & SSL_FLAGS_READ_SECURE);
    }
    if (vf_bool())
    {
        ssl->fragMessage = (unsigned char *) malloc(4);
        VF_ASSUME(ssl->fragMessage != NULL);
        ssl->fragTotal = vf_u32();
        ssl->fragIndex = vf_u32();
    }

    vf_bytes(S_inbuf, VF_N);
    len = vf_u32();
    VF_ASSUME(len <= VF_N);
    size = VF_N;
    buf = S_inbuf;
    len0 = len;
    pre = S;
    pre_sid = S_sid;
    memcpy(in_copy, S_inbuf, VF_N);

    rc = matrixSslDecodeTls12AndBelow(ssl, &buf, &len, size, &remaining, &requiredLen,
            &error, &alertLevel, &alertDescription);

    /* ------------------------------------------------------------------ */
    if (rc == SSL_PROCESS_DATA)
    {
#if defined(VF_GROUP_C01) || defined(VF_GROUP_C02) || defined(VF_GROUP_C08)
        VF_REACH("process_data");
#endif
#ifdef VF_GROUP_C01
        VF_ASSERT(ssl->rec.type == SSL_RECORD_TYPE_APPLICATION_DATA, "c01.type_is_appdata");
        VF_ASSERT(pre.hsState == SSL_HS_DONE || pre.hsState == SSL_HS_SERVER_HELLO, "c01.hs_done");
        VF_ASSERT(pre.flags & SSL_FLAGS_READ_SECURE, "c01.read_secure");
        VF_ASSERT(g_hs_calls == 0 && g_activate_calls == 0, "c01.no_state_change_before_data");
        VF_ASSERT(g_dec_calls >= 1 && g_dec_rc >= 0, "c01.decrypt_ok");
        /* the decrypt call covered exactly the record body that precedes *buf */
        VF_ASSERT(g_dec_in + g_dec_len == buf, "c01.decrypt_covers_record");
        VF_ASSERT(g_dec_in >= S_inbuf + ssl->recordHeadLen && buf <= S_inbuf + len0, "c01.record_inside_input");
        if (!(pre.flags & SSL_FLAGS_AEAD_R))
        {
            VF_ASSERT(g_mac_calls >= 1 && g_mac_after_dec && g_mac_rc >= 0, "c01.mac_ok");
            VF_ASSERT(g_mac_type == SSL_RECORD_TYPE_APPLICATION_DATA, "c01.mac_type");
            /* delivered bytes [S_inbuf, S_inbuf+len) end at the MAC, and the
               MACed range ends there too */
            VF_ASSERT(g_mac_data + g_mac_len == g_mac_mac, "c01.mac_range");
            VF_ASSERT(S_inbuf + len == g_mac_mac, "c01.delivered_ends_at_mac");
            VF_ASSERT(g_dec_out == S_inbuf, "c01.decrypt_to_front");
            VF_ASSERT(g_mac_data >= g_dec_out && g_mac_mac + ssl->deMacSize <= g_dec_out + g_dec_len, "c01.mac_inside_decrypted");
        }
        else
        {
            VF_ASSERT(g_mac_calls == 0 || !g_mac_after_dec, "c01.aead_no_mac");
            /* ChaCha20 decrypts in place and the plaintext is then moved to the front */
            VF_ASSERT(g_dec_out == S_inbuf || (DECRYPTING_WITH_CHACHA20(ssl) && g_dec_out == g_dec_in), "c01.decrypt_to_front_aead");
            VF_ASSERT(len <= g_dec_len, "c01.delivered_inside_decrypted");
        }
        VF_ASSERT(len <= VF_N, "c01.len_bounded");
        VF_ASSERT(remaining == len0 - (uint32) (buf - S_inbuf), "c01.remaining");
#endif
#ifdef VF_GROUP_C02
        if (!(pre.flags & SSL_FLAGS_AEAD_R) && pre.deBlockSize > 1)
        {
            /* CBC: plaintext layout [IV?] data MAC pad*(padLen+1) */
            unsigned char padLen = g_dec_out[g_dec_len - 1];
            uint32 iv = (pre.activeVersion & v_tls_explicit_iv) ? pre.deBlockSize : 0;
            uint32 i;
            VF_ASSERT(g_dec_len >= iv + pre.deMacSize + padLen + 1, "c02.cbc_min_len");
            VF_ASSERT(g_mac_data == g_dec_out + iv, "c02.cbc_data_start");
            VF_ASSERT(g_mac_mac == g_dec_out + g_dec_len - padLen - 1 - pre.deMacSize, "c02.cbc_mac_pos");
            for (i = 0; i <= padLen && i < VF_N; i++)
            {
                VF_ASSERT(g_dec_out[g_dec_len - 1 - i] == padLen, "c02.cbc_pad_bytes");
            }
        }
        if (!(pre.flags & SSL_FLAGS_AEAD_R) && pre.deBlockSize <= 1)
        {
            VF_ASSERT(g_mac_data == g_dec_out, "c02.stream_data_start");
            VF_ASSERT(g_mac_mac == g_dec_out + g_dec_len - pre.deMacSize, "c02.stream_mac_pos");
        }
        VF_ASSERT((int32) (len - ((pre.flags & SSL_FLAGS_AEAD_R) ? 0 : 0)) <= SSL_MAX_PLAINTEXT_LEN + 16, "c02.pt_limit");
#endif
    }

#ifdef VF_GROUP_C02
    /* a record whose MAC or padding is bad yields no data and a fatal alert */
    if (g_mac_calls >= 1 && g_mac_after_dec && g_mac_rc < 0)
    {
        VF_REACH("mac_failed");
        VF_ASSERT(rc != SSL_PROCESS_DATA && rc != MATRIXSSL_SUCCESS && rc != SSL_ALERT, "c02.mac_fail_no_data");
        VF_ASSERT(ssl->err == SSL_ALERT_BAD_RECORD_MAC, "c02.mac_fail_alert");
    }
    if (g_dec_calls >= 1 && g_dec_rc < 0 && g_hs_calls == 0)
    {
        VF_REACH("decrypt_failed");
        VF_ASSERT(rc != SSL_PROCESS_DATA && rc != SSL_ALERT, "c02.decrypt_fail_no_data");
#if !VF_DTLS
        VF_ASSERT(rc != MATRIXSSL_SUCCESS, "c02.decrypt_fail_not_success");
        VF_ASSERT(ssl->err != SSL_ALERT_NONE, "c02.decrypt_fail_alert");
#endif
    }
    /* CBC: the MAC is verified on every secured CBC record that decrypted,
       whatever the padding looks like (uniform path) */
    if (g_dec_calls >= 1 && g_dec_rc >= 0 && (pre.flags & SSL_FLAGS_READ_SECURE)
        && !(pre.flags & SSL_FLAGS_AEAD_R) && g_hs_calls == 0 && g_activate_calls == 0)
    {
        VF_REACH("secured_nonaead_decrypted");
        VF_ASSERT(g_mac_calls >= 1 && g_mac_after_dec, "c02.mac_always_checked");
    }
#endif

#ifdef VF_GROUP_C06
    /* the read cipher is activated only by a ChangeCipherSpec record that
       arrives when Finished is expected (or the two ticket-limbo cases,
       which first derive keys) */
    if (g_activate_calls > 0)
    {
        VF_REACH("read_cipher_activated");
        VF_ASSERT(ssl->rec.type == SSL_RECORD_TYPE_CHANGE_CIPHER_SPEC, "c06.activate_only_on_ccs");
        VF_ASSERT(g_hs_state_at_activate == SSL_HS_FINISHED, "c06.activate_only_when_finished_expected");
        VF_ASSERT(pre.hsState == SSL_HS_FINISHED ||
            (g_createkeys_calls == 1 && pre.sid != NULL &&
             pre_sid.sessionTicketState == SESS_TICKET_STATE_IN_LIMBO &&
             (pre.hsState == SSL_HS_CERTIFICATE ||
              (pre.hsState == SSL_HS_SERVER_KEY_EXCHANGE && (pre.flags & SSL_FLAGS_PSK_CIPHER)))),
            "c06.ccs_state");
        VF_ASSERT(g_activate_calls == 1, "c06.activate_once");
    }
    if (ssl->rec.type == SSL_RECORD_TYPE_CHANGE_CIPHER_SPEC && rc == MATRIXSSL_SUCCESS &&
        ssl->decState == SSL_HS_CCC && pre.decState != SSL_HS_CCC)
    {
        VF_REACH("ccs_accepted");
        VF_ASSERT(g_activate_calls == 1, "c06.ccs_accept_activates");
    }
    /* handshake parser is reached only for handshake records */
    if (g_hs_calls > 0)
    {
        VF_REACH("handshake_parsed");
        VF_ASSERT(ssl->rec.type == SSL_RECORD_TYPE_HANDSHAKE, "c06.hs_parser_only_on_hs_record");
        VF_ASSERT(g_hs_calls == 1, "c06.hs_parser_once_per_call");
    }
#endif

#ifdef VF_GROUP_C15
    /* whenever a fatal alert was queued (ssl->err set) the session is
       poisoned, unless the response did not fit (SSL_FULL: retried later) or
       encoding failed hard (error return) */
    if (ssl->err != SSL_ALERT_NONE)
    {
        VF_REACH("err_set");
        VF_ASSERT(rc != SSL_PROCESS_DATA && rc != MATRIXSSL_SUCCESS && rc != SSL_ALERT &&
            rc != SSL_PARTIAL, "c15.no_success_on_error");
        if (rc == SSL_SEND_RESPONSE)
        {
            VF_ASSERT(ssl->flags & SSL_FLAGS_ERROR, "c15.poison_on_alert_sent");
            VF_ASSERT(alertLevel == SSL_ALERT_LEVEL_FATAL && alertDescription == (unsigned char) ssl->err, "c15.alert_reported");
        }
        else
        {
            VF_ASSERT(rc == SSL_FULL || rc < 0, "c15.err_return_codes");
            if (rc == SSL_FULL)
            {
                VF_ASSERT(ssl->flags & SSL_FLAGS_NEED_ENCODE, "c15.full_sets_need_encode");
            }
        }
    }
    if (rc == SSL_ALERT)
    {
        VF_REACH("alert_received");
        if (alertLevel == SSL_ALERT_LEVEL_FATAL)
        {
            VF_ASSERT(ssl->flags & SSL_FLAGS_ERROR, "c15.fatal_alert_poisons");
        }
        if (alertDescription == SSL_ALERT_CLOSE_NOTIFY)
        {
            VF_ASSERT(ssl->flags & SSL_FLAGS_CLOSED, "c15.close_notify_closes");
        }
        VF_ASSERT(ssl->rec.type == SSL_RECORD_TYPE_ALERT, "c15.alert_type");
    }
    /* flags ERROR/CLOSED are never cleared */
    VF_ASSERT(!(pre.flags & SSL_FLAGS_ERROR) || (ssl->flags & SSL_FLAGS_ERROR), "c15.error_sticky");
#endif

#ifdef VF_GROUP_C16
# if VF_DTLS
    /* a record whose epoch differs from the expected epoch reaches decrypt
       only in the documented catch-up cases.  Stated for the first record of
       the datagram (for which the pre-state is the state it was examined in);
       later records are covered by induction over calls */
    if (g_dec_calls >= 1 && g_first_dec_in == S_inbuf + DTLS_HEADER_LEN)
    {
        int cmp = dtlsCompareEpoch(in_copy + 3, pre.expectedEpoch);
        unsigned char rtype = in_copy[0];
        VF_REACH("dtls_decrypt_first_record");
        VF_ASSERT(cmp == 0 ||
            (cmp == 1 && rtype == SSL_RECORD_TYPE_HANDSHAKE && pre.hsState == SSL_HS_FINISHED && pre.parsedCCS != 0) ||
            (cmp == 1 && rtype == SSL_RECORD_TYPE_APPLICATION_DATA && pre.hsState == SSL_HS_DONE),
            "c16.epoch_gate");
        VF_ASSERT(cmp != -1, "c16.old_epoch_never_decrypted");
        /* and only if the replay window accepted its sequence number: either
           the window state changed, or ... (the window itself is C16.a) */
    }
    /* the receive epoch only moves forward: going back to an epoch whose
       records were already accepted would make every one of them fresh again
       (epoch numbers are assumed not to wrap: 65535 handshakes) */
    if (!(pre.expectedEpoch[0] == 0xFF && pre.expectedEpoch[1] == 0xFF))
    {
        VF_ASSERT(dtlsCompareEpoch(ssl->expectedEpoch, pre.expectedEpoch) != -1, "c16.expected_epoch_never_goes_back");
    }
    if (memcmp(ssl->expectedEpoch, pre.expectedEpoch, 2) != 0)
    {
        /* the replay window is per epoch: when the expected epoch changes,
           nothing of the old epoch may remain marked - at most the records
           consumed in this call (>= 14 bytes each) are */
        unsigned long bm = ssl->dtlsBitmap;
        int pc = 0, b;
        VF_REACH("epoch_changed");
        for (b = 0; b < 64; b++)
        {
            pc += (int) ((bm >> b) & 1);
        }
        VF_ASSERT(pc <= VF_N / 14, "c16.epoch_change_resets_window");
    }
    if (rc == SSL_PROCESS_DATA && g_dec_calls == 1 && g_first_dec_in == S_inbuf + DTLS_HEADER_LEN)
    {
        /* delivered record was not older than the last sequence number by 32
           or more, and its bit was not already set (replay window consulted) */
        VF_REACH("dtls_delivered_first_record");
        VF_ASSERT(ssl->appDataExch == pre.appDataExch, "c16.decode_leaves_appdataexch");
    }
# endif
#endif

#ifdef VF_GROUP_C18
# if !VF_DTLS
    if (rc == SSL_PROCESS_DATA || rc == SSL_ALERT)
    {
        /* hand-off to matrixSslProcessedData (see dec13_harness.c) */
        uint32 ctlen = ssl->rec.len + ssl->recordHeadLen;
        VF_REACH("handoff");
        if (ssl->flags & SSL_FLAGS_AEAD_R)
        {
            /* read direction: the explicit nonce is present iff NONCE_R */
            ctlen += AEAD_TAG_LEN(ssl) + ((ssl->flags & SSL_FLAGS_NONCE_R) ? TLS_EXPLICIT_NONCE_LEN : 0);
        }
        VF_ASSERT((uint32) (buf - S_inbuf) == ctlen, "c18.consumed_equals_record_bookkeeping");
    }
# endif
    if (rc == SSL_PARTIAL)
    {
        VF_REACH("partial");
        VF_ASSERT(buf == S_inbuf && len == len0, "c18.partial_buf_unchanged");
        VF_ASSERT(requiredLen > len0, "c18.partial_needs_more");
        VF_ASSERT(requiredLen <= SSL_MAX_RECORD_LEN + DTLS_HEADER_LEN, "c18.partial_required_bounded");
        VF_ASSERT(memcmp(in_copy, S_inbuf, VF_N) == 0, "c18.partial_bytes_untouched");
        VF_ASSERT(ssl->flags == pre.flags && ssl->hsState == pre.hsState && ssl->err == pre.err &&
            ssl->decState == pre.decState && g_dec_calls == 0 && g_hs_calls == 0 && g_enc_calls == 0 &&
            ssl->ignoredMessageCount == pre.ignoredMessageCount, "c18.partial_state_unchanged");
# if !VF_DTLS
        VF_ASSERT(ssl->activeVersion == pre.activeVersion, "c18.partial_version_unchanged");
# endif
    }
#endif
    VF_ASSERT(g_cb_range_bad == 0, "c08.cipher_callback_ranges_inside_input_buffer");
    (void) in_copy;
    VF_REACH("end");
}
