/* ssl_state.h - build an arbitrary ssl_t that satisfies the representation
 * invariant "RI-ssl" (DESIGN.md section 3).  Included by record-layer and
 * handshake-layer harnesses *after* the unit under test has been included
 * (so ssl_t and friends are visible).
 *
 * Under CBMC every scalar field is first made nondeterministic as a whole
 * (VF_HAVOC) and the fields listed below are then drawn through the tape so
 * that a counterexample replays natively.  A counterexample that depends on a
 * field that is not drawn here does not replay and is reported as UNCONFIRMED
 * (machinery failure), never as a violation.  Natively the object starts
 * zeroed.
 */
#ifndef VF_SSL_STATE_H
#define VF_SSL_STATE_H

#ifdef VF_CBMC
# define VF_HAVOC(obj, type) do { type nondet_vf_##type(void); (obj) = nondet_vf_##type(); } while (0)
#else
# define VF_HAVOC(obj, type) memset(&(obj), 0, sizeof(obj))
#endif

#ifndef VF_N
# define VF_N 64
#endif

static ssl_t S;
static sslCipherSpec_t S_cipher, S_rcipher, S_wcipher;
static sslSessionId_t S_sid;
#ifndef VF_NOUT
# define VF_NOUT 32
#endif
static unsigned char S_inbuf[VF_N];
static unsigned char S_outbuf[VF_NOUT];

static const psProtocolVersion_t vf_versions[] = {
    v_undefined, v_tls_1_0, v_tls_1_1, v_tls_1_2, v_dtls_1_0, v_dtls_1_2, v_tls_1_3
};

/* one well-formed protocol version value (single version bit), optional
   "negotiated" flag */
static psProtocolVersion_t vf_version(int allow13)
{
    uint8_t k;
#ifdef VF_VER
    /* version enumerated by the driver as a -D case (keeps the DTLS/TLS
       branching concrete during symbolic execution) */
    (void) allow13;
    return (psProtocolVersion_t) (VF_VER);
#endif
    k = vf_u8();
    psProtocolVersion_t v;
    VF_ASSUME(k < (allow13 ? 7 : 6));
    v = vf_versions[k];
    if (vf_bool())
    {
        v |= v_tls_negotiated;
    }
    return v;
}

static void vf_cipher_init(sslCipherSpec_t *c)
{
    VF_HAVOC(*c, sslCipherSpec_t);
    c->ident = vf_u16();
    c->type = vf_u16();
    /* RI: no entry of the cipher table sets CRYPTO_FLAGS_CCM8 (tag is 16 bytes) */
    c->flags = vf_u32() & ~(uint32_t) CRYPTO_FLAGS_CCM8;
    c->macSize = vf_u8();
    c->keySize = vf_u8();
    c->ivSize = vf_u8();
    c->blockSize = vf_u8();
    c->init = NULL;
    c->encrypt = NULL;
    c->decrypt = NULL;
    c->generateMac = NULL;
    c->verifyMac = NULL;
}

/* scalar state read by the record layer and the handshake dispatcher */
static void vf_ssl_scalars(ssl_t *ssl, int allow13)
{
    uint8_t k;

    ssl->flags = vf_u32();
    ssl->hsState = vf_u8();
    ssl->decState = vf_u8();
    ssl->encState = vf_u8();
    ssl->err = SSL_ALERT_NONE; /* cleared by the API before each decode */
    ssl->ignoredMessageCount = vf_i32();
    ssl->bFlags = vf_u32();
    ssl->maxPtFrag = vf_i32();
    ssl->activeVersion = vf_version(allow13);
    ssl->supportedVersions = vf_u32() & (v_tls_any | v_dtls_any);
    ssl->rec.type = vf_u8();
    ssl->rec.majVer = vf_u8();
    ssl->rec.minVer = vf_u8();
    ssl->rec.len = vf_u16();

    /* RI: header lengths follow the DTLS bit of the active version */
    if (ssl->activeVersion & v_dtls_any)
    {
        ssl->recordHeadLen = DTLS_HEADER_LEN;
        ssl->hshakeHeadLen = DTLS_HEADER_LEN - 1; /* 12 */
    }
    else
    {
        ssl->recordHeadLen = SSL3_HEADER_LEN;
        ssl->hshakeHeadLen = SSL3_HANDSHAKE_HEADER_LEN;
    }
    /* RI (established by sslActivateReadCipher from the cipher table of
       cipherSuite.c): no read protection <=> null sizes; AEAD <=> MAC size 0
       and block size 0; otherwise CBC with an HMAC (10 = truncated_hmac) and
       block size 8 or 16 */
    if (!(ssl->flags & SSL_FLAGS_READ_SECURE))
    {
        ssl->flags &= ~(SSL_FLAGS_AEAD_R | SSL_FLAGS_NONCE_R);
        ssl->deMacSize = 0;
        ssl->deBlockSize = 0;
    }
    else if (ssl->flags & SSL_FLAGS_AEAD_R)
    {
        ssl->deMacSize = 0;
        ssl->deBlockSize = 0;
    }
    else
    {
        ssl->flags &= ~SSL_FLAGS_NONCE_R;
        k = vf_u8();
        VF_ASSUME(k < 4);
        ssl->deMacSize = (k == 0) ? 10 : (k == 1) ? SHA1_HASH_SIZE : (k == 2) ? SHA256_HASH_SIZE : SHA384_HASH_SIZE;
        ssl->deBlockSize = vf_bool() ? 8 : 16;
    }
    ssl->nativeDeMacSize = ssl->deMacSize;
    ssl->deIvSize = vf_u8();
    k = vf_u8();
    VF_ASSUME(k < 4);
    ssl->enMacSize = (k == 0) ? 0 : (k == 1) ? SHA1_HASH_SIZE : (k == 2) ? SHA256_HASH_SIZE : SHA384_HASH_SIZE;
    ssl->nativeEnMacSize = ssl->enMacSize;
    k = vf_u8();
    VF_ASSUME(k < 4);
    ssl->enBlockSize = (k == 0) ? 0 : (k == 1) ? 1 : (k == 2) ? 8 : 16;
    ssl->enIvSize = vf_u8();
#ifdef USE_DTLS
    vf_bytes(ssl->expectedEpoch, 2);
    vf_bytes(ssl->epoch, 2);
    vf_bytes(ssl->lastRsn, 6);
    vf_bytes(ssl->rec.epoch, 2);
    vf_bytes(ssl->rec.rsn, 6);
    ssl->dtlsBitmap = vf_u64();
    ssl->parsedCCS = vf_i32();
    ssl->appDataExch = vf_u16();
    ssl->lastMsn = vf_i32();
    ssl->msn = vf_i32();
    ssl->retransmit = vf_i32();
    ssl->flightDone = vf_u16();
#endif
}

/* pointer fields: harness-owned objects or NULL */
static void vf_ssl_pointers(ssl_t *ssl)
{
    vf_cipher_init(&S_cipher);
    vf_cipher_init(&S_rcipher);
    vf_cipher_init(&S_wcipher);
    ssl->cipher = &S_cipher;
    ssl->activeReadCipher = vf_bool() ? &S_rcipher : NULL;
    /* RI (sslActivateReadCipher): the active read cipher is ChaCha20-Poly1305
       exactly when the read state is AEAD without explicit nonce */
    if ((ssl->flags & SSL_FLAGS_AEAD_R) && !(ssl->flags & SSL_FLAGS_NONCE_R))
    {
        ssl->activeReadCipher = &S_rcipher;
        S_rcipher.flags |= CRYPTO_FLAGS_CHACHA;
    }
    else
    {
        S_rcipher.flags &= ~CRYPTO_FLAGS_CHACHA;
    }
    ssl->activeWriteCipher = vf_bool() ? &S_wcipher : NULL;
    ssl->keys = NULL;
    ssl->flightEncode = NULL;
    ssl->delayHsHash = NULL;
    ssl->seqDelay = NULL;
    ssl->bufferPool = NULL;
    ssl->sPool = NULL;
    ssl->hsPool = NULL;
    ssl->flightPool = NULL;
    ssl->expectedName = NULL;
    ssl->userExt = NULL;
    ssl->fragMessage = NULL;
    ssl->fragIndex = 0;
    ssl->fragTotal = 0;
    ssl->inbuf = NULL;
    ssl->outbuf = S_outbuf;
    ssl->outsize = VF_NOUT;
    ssl->outlen = vf_i32();
    VF_ASSUME(ssl->outlen >= 0 && ssl->outlen <= ssl->outsize);
    ssl->userPtr = NULL;
    ssl->userDataPtr = NULL;
    ssl->memAllocPtr = NULL;
    if (vf_bool())
    {
        VF_HAVOC(S_sid, sslSessionId_t);
        S_sid.sessionTicketState = vf_u32();
        S_sid.cipherId = vf_u32();
        ssl->sid = &S_sid;
    }
    else
    {
        ssl->sid = NULL;
    }
}

#endif
