"""shared harness builders (record-layer harnesses are used by several properties
with different assertion groups)"""

MEMCHECKS = ["--bounds-check", "--pointer-check", "--div-by-zero-check", "--undefined-shift-check"]


def dec12_unwind(n, dtls=1):
    """loop bounds of matrixSslDecodeTls12AndBelow for an n-byte input buffer,
    derived from the code: DTLS records are >= 14 bytes, the Lucky-13 dummy
    loops run 256 times, the pad loop at most rec.len <= n times, the SHA
    blinding loops at most (13+n)/64+1 times.  In a TLS session the three
    decodeMore back-edges are unreachable (bound 1 = "never taken", proved by
    the unwinding assertion)"""
    recs = (n // 14 + 1) if dtls else 1
    sha = (13 + n) // 64 + 3
    f = "matrixSslDecodeTls12AndBelow"
    return {
        f + ":/goto decodeMore/": recs,
        f + ":/for \\(rc = 255; rc >= 0; rc--\\)/": 257,
        f + ":/for \\(mac = p - padLen - 1; mac < p; mac\\+\\+\\)/": n + 1,
        f + ":/for \\(rc = 256 - padLen - 1; rc > 0; rc--\\)/": 257,
        f + ":/for \\(rc = \\(256 - padLen\\) - 1; rc > 0; rc--\\)/": 257,
        f + ":/while \\(rc > 0\\)/": sha,
        "addCompressCount:/while \\(l[12] > (64|128)\\)/": sha,
        "vf_decrypt:/for \\(i = 0; i < len/": n + 1,
        "vf_harness:/for \\(i = /": n + 2,
    }


DEC12_VERS = [("undef", "v_undefined", 0), ("tls11", "v_tls_1_1", 0), ("tls11n", "(v_tls_1_1|v_tls_negotiated)", 0),
              ("tls12", "v_tls_1_2", 0), ("tls12n", "(v_tls_1_2|v_tls_negotiated)", 0),
              ("dtls10", "v_dtls_1_0", 1), ("dtls10n", "(v_dtls_1_0|v_tls_negotiated)", 1),
              ("dtls12", "v_dtls_1_2", 1), ("dtls12n", "(v_dtls_1_2|v_tls_negotiated)", 1)]


def dec12_cases(n_tls, n_dtls, tier="quick", only=None, dtls_only=None):
    """activeVersion is enumerated (concrete) so that symbolic execution does
    not fork on TLS-vs-DTLS; everything else stays symbolic"""
    out = []
    for nm, v, d in DEC12_VERS:
        if only and nm not in only:
            continue
        if d and dtls_only and nm not in dtls_only:
            continue
        n = n_dtls if d else n_tls
        if n is None:
            continue
        out.append(dict(name="%s_n%d" % (nm, n), tier=tier,
                        defs={"VF_N": n, "VF_DTLS": d, "VF_VER": v},
                        unwindset=dec12_unwind(n, d)))
    return out


def dec12(name, groups, cases, checks=None, **kw):
    if "C08" not in groups and checks:
        groups = list(groups) + ["C08"]
    h = dict(
        name=name, dir="common", src="dec12_harness.c",
        renames={"matrixssl/sslDecode.c": ["parseSSLHandshake"]},
        units=["matrixssl/dtls.c", "matrixssl/hsNegotiateVersion.c"],
        defs={("VF_GROUP_" + g): None for g in groups},
        checks=checks if checks is not None else [],
        functions=["matrixSslDecodeTls12AndBelow", "handleRecordHdr", "validateRecordHdrType",
                   "validateRecordHdrVersion", "validateRecordHdrLen", "addCompressCount",
                   "dtlsChkReplayWindow", "dtlsCompareEpoch", "psVerFromEncodingMajMin"],
        sources=["matrixssl/sslDecode.c", "matrixssl/dtls.c", "matrixssl/hsNegotiateVersion.c"],
        assumptions=[
            "dec12: ssl->decrypt/verifyMac are stubs returning an arbitrary verdict (AEAD stub rejects records not longer than nonce+tag, CBC stub rejects lengths that are not a block multiple - the contracts decided in C02.a/C12.e); plaintext = arbitrary bytes",
            "dec12: parseSSLHandshake, sslEncodeResponse, matrixSslEncodeClientHello, sslActivateReadCipher, sslCreateKeys are contract stubs with arbitrary results; Lucky-13 dummy hash calls are no-ops",
            "dec12: RI-ssl: header lengths follow the DTLS bit; read-state coherence of sslActivateReadCipher (no protection <=> null sizes, AEAD <=> mac/block size 0, CBC: mac in {10,20,32,48}, block in {8,16}); active read cipher is ChaCha20 iff AEAD without explicit nonce; session not already ERROR/CLOSED; activeVersion one of the enabled versions (TLS1.1, TLS1.2, DTLS1.0, DTLS1.2 or undefined), enumerated",
        ],
        cases=cases,
    )
    h.update(kw)
    return h


def dec13_unwind(n):
    return {"matrixSslDecodeTls13:/goto parse_next_record_header/": n // 6 + 2,  # CCS records are 6 bytes each
            "matrixSslDecodeTls13:/while \\(\\*p == 0/": n + 1,                      # padding scan
            "matrixSslDecodeTls13:/while \\(p != end\\)/": n + 1,                    # >= 1 byte per handshake message
            "vf_harness:/for \\(i = /": n + 2}


def dec13(name, groups, ns=((48, "quick"),), checks=None, **kw):
    h = dict(
        name=name, dir="common", src="dec13_harness.c",
        renames={"matrixssl/tls13Decode.c": ["tls13ParseHandshakeMessage"]},
        units=["core/src/psbuf.c"],
        defs={("VF_GROUP_" + g): None for g in groups},
        checks=checks if checks is not None else [],
        functions=["matrixSslDecodeTls13", "tls13ParseRecordHeader", "tls13ValidateRecordHeader",
                   "tls13ParseChangeCipherSpec", "tls13ValidateRecordType", "tls13HandleAlert",
                   "tls13ParseAndHandleAlert", "psParseTlsRecordHeader", "psParseOctet", "psParseCanRead",
                   "psParseTryForward", "psParseBufFromStaticData"],
        sources=["matrixssl/tls13Decode.c", "core/src/psbuf.c", "core/include/psbuf.h"],
        assumptions=[
            "dec13: ssl->decrypt is a stub with an arbitrary verdict that rejects records of <= 16 bytes (contract of the real TLS 1.3 AEAD open functions, decided in C02.a); plaintext = arbitrary bytes (in situ)",
            "dec13: tls13ParseHandshakeMessage, tls13EncodeAlert, sslEncodeResponse are contract stubs with arbitrary results",
            "dec13: RI-ssl with activeVersion = TLS 1.3 (negotiated or not), READ_SECURE => AEAD_R, session not already ERROR/CLOSED",
        ],
        cases=[dict(name="n%d" % n, tier=t, defs={"VF_N": n}, unwindset=dec13_unwind(n)) for n, t in ns],
    )
    h.update(kw)
    return h


def aead(name, fn, lens, prop_prefix=None, **kw):
    h = dict(
        name=name, dir="common", src="aead_harness.c", checks=MEMCHECKS,
        units=["matrixssl/hsNegotiateVersion.c"],
        functions=["csAesGcmDecrypt", "csAesGcmEncrypt"] if fn <= 2 else
                  ["csAesGcmDecryptTls13", "csAesGcmEncryptTls13", "tls13MakeReadNonce", "tls13MakeWriteNonce", "tls13MakeDecryptAad", "tls13MakeEncryptAad", "psAesIncrSec"],
        sources=["matrixssl/cipherSuite.c", "matrixssl/tls13CipherSuite.c"],
        assumptions=["aead: psAesReadyGCM / psAesEncryptGCM / psAesGetGCMTag / psAesDecryptGCM are logging stubs (arbitrary open verdict); IVs, sequence numbers, epoch, record type arbitrary; record length enumerated"],
        unwind=60,
        cases=[dict(name="len%d" % n, tier=t, defs={"VF_FN": fn, "VF_LEN": n}) for n, t in lens],
    )
    h.update(kw)
    return h


def enc_gate(mode):
    f = "matrixssl/sslEncode.c" if mode == 12 else "matrixssl/tls13Encode.c"
    ren = ["writeRecordHeader", "encryptRecord"] if mode == 12 else ["tls13WriteRecordHeader", "tls13Encrypt"]
    return dict(
        name="enc_gate%d" % mode, dir="common", src="enc_gate.c", checks=[],
        renames={f: ren},
        functions=["matrixSslEncode"] if mode == 12 else ["tls13EncodeAppData", "isGoodStateForAppDataEncrypt"],
        sources=[f],
        assumptions=["enc_gate: record header writer and record sealing functions are stubs (ghost: reached); session state arbitrary (RI-ssl)"],
        unwind=12,
        cases=[dict(name="m%d" % mode, defs={"VF_MODE": mode})],
    )


API_VERS = [("tls11", "(v_tls_1_1|v_tls_negotiated)"), ("tls12", "(v_tls_1_2|v_tls_negotiated)"),
            ("tls13", "(v_tls_1_3|v_tls_negotiated)"), ("dtls12", "(v_dtls_1_2|v_tls_negotiated)")]


def api_loops(nmax, dtls, aead=False):
    """the three `goto DECODE_MORE` back-edges of matrixSslReceivedData are
    nested loops for CBMC; bounds from the code: every SUCCESS / RETRANSMIT
    iteration consumes at least a record header (5 / 13 bytes) and needs bytes
    left over, SSL_FULL is returned at most once per call (stub contract)"""
    hdr = 13 if dtls else 5
    if aead:
        hdr += 16
    it = (nmax - 1) // hdr + 1
    f = "matrixSslReceivedData"
    return {f + ":/goto DECODE_MORE/": 2,
            f + ":/goto DECODE_MORE;[\\s\\S]*In this case/": it,
            f + ":/goto DECODE_MORE;[\\s\\S]*Flight will be rebuilt/": it if dtls else 1,
            f + ":/goto DECODE_MORE;[\\s\\S]*case SSL_PROCESS_DATA/": 2}


def api_n(nm, nmax):
    return 28 if "dtls" in nm else nmax


def api_mem_loops(n):
    return {"memmove:/for \\(i = 0/": 2 * n + 9, "realloc:/for \\(/": 2 * n + 9, "matrixSslDecode:/for \\(i = 0/": n + 1,
            "suffix_intact:/for \\(i = 0/": n + 1, "vf_harness:/for \\(i = 0/": n + 1}


def api_recv(checks=None, nmax=12, only=None):
    """public receive API over a decoder contract stub (C18.b/d, C08.c, C01.c)"""
    h = dict(
        name="api_recv", dir="C18", src="api_recv.c", checks=checks if checks is not None else MEMCHECKS,
        units=["matrixssl/hsNegotiateVersion.c"],
        functions=["matrixSslReceivedData", "matrixSslProcessedData", "matrixSslSentData", "revertToDefaultBufsize", "matrixSslHandshakeIsComplete"],
        sources=["matrixssl/matrixsslApi.c"],
        assumptions=[
            "api_recv: matrixSslDecode is a contract stub: SUCCESS/PROCESS_DATA/ALERT consume k in [record header, len] bytes, PROCESS_DATA/ALERT leave n <= k-header plaintext bytes at the buffer front and rec.len = k - header - read-direction AEAD overhead (decided against the real decoders: c18.consumed_equals_record_bookkeeping, c01.remaining, c02.cbc_min_len); SEND_RESPONSE writes <= size bytes at the front; PARTIAL asks for more than is buffered; FULL at most once per call; ERROR returns a negative code",
            "api_recv: caller contract: bytes <= space offered by matrixSslGetReadbuf, sent bytes <= outlen; buffers are heap objects of exactly insize/outsize bytes (1..%d); SSL_DEFAULT_IN/OUT_BUF_SIZE scaled to 12 so that grow and shrink paths are inside the bound; realloc never fails" % nmax,
        ],
        unwindset={"matrixSslDecode:/for \\(i = 0/": nmax + 1,
                   "suffix_intact:/for \\(i = 0/": nmax + 1, "vf_harness:/for \\(i = 0/": nmax + 1,
                   "memmove:/for \\(i = 0/": 2 * nmax + 9, "realloc:/for \\(/": 2 * nmax + 9, "vf_chk:/for \\(j = 0/": 5, "buffers_ri:/for \\(j = 0/": 5},
        cases=[dict(name="recv_" + nm, defs={"VF_VER": v, "VF_OP": 0, "VF_NMAX": api_n(nm, nmax)},
                    unwindset=dict(api_loops(api_n(nm, nmax), "dtls" in nm), **api_mem_loops(api_n(nm, nmax)))) for nm, v in API_VERS] +
              [dict(name="recv_tls12_aead", defs={"VF_VER": API_VERS[1][1], "VF_OP": 0, "VF_NMAX": 34, "VF_AEAD": 1}, cap_s=900,
                    unwindset=dict(api_loops(34, False, True), **api_mem_loops(34)))] +
              [dict(name="sent_tls12", defs={"VF_VER": API_VERS[1][1], "VF_OP": 1, "VF_NMAX": nmax})],
    )
    if only:
        h["cases"] = [c for c in h["cases"] if c["name"] in only]
    return h


def hs_dispatch(checks=None, n=32, only=None):
    """parseSSLHandshake with DTLS / TLS reassembly over parser stubs.
    quick: small variant (16-byte DTLS record, 8-byte reassembly buffer, one
    stored fragment; 12-byte TLS record; 24-byte heap blocks); thorough: 20 / 12
    byte records, 16-byte reassembly buffer, two stored fragments"""
    def loops(dtls, nrec, slot, nfr):
        f = "parseSSLHandshake"
        msgs = 4 if dtls else (nrec // 4 + 1)
        return {f + ":/goto parseHandshake/": msgs,
                "dtlsHsHashFragMsg:/while \\(i < MAX_FRAGMENTS\\)/": (nfr + 1) * (nfr + 1) + 18,
                "dtlsSeenFrag:/for \\(i = 0/": 17, "dtlsInitFrag:/for \\(i = 0/": 17,
                "vf_harness:/for \\(i = 0; i < MAX_FRAGMENTS/": 17, "vf_harness:/for \\(i = 0; i < NFR/": 4,
                "vf_harness:/for \\(a = 0/": 4, "vf_harness:/for \\(b = 0/": 4,
                "memcmp.0": 10, "memcmpct:/./": slot + 1, "vf_bytes:/./": 34,
                "memmove:/for \\(i = 0/": slot + 1, "realloc:/for \\(i = 0/": slot + 1, "calloc:/for \\(i = 0/": slot + 1, "malloc:/for \\(j = /": 9, "vf_heap_slot_of:/for \\(j = /": 9}
    def case(name, tier, dtls, nrec, fm, nfr, slot):
        return dict(name=name, tier=tier,
                    defs={"VF_VER": "(v_dtls_1_2|v_tls_negotiated)" if dtls else "(v_tls_1_2|v_tls_negotiated)", "VF_DTLS": dtls, "VF_N": nrec,
                          "VF_FM": fm, "NFR": nfr, "VF_HEAP_SLOT": slot},
                    unwindset=loops(dtls, nrec, slot, nfr))
    h = dict(
        name="hs_dispatch", dir="C08", src="hs_dispatch.c", checks=checks if checks is not None else MEMCHECKS,
        units=["matrixssl/dtls.c", "matrixssl/hsNegotiateVersion.c"],
        native_units=["core/src/corelib_strings.c"],
        functions=["parseSSLHandshake", "dtlsSeenFrag", "dtlsInitFrag", "dtlsHsHashFragMsg"],
        sources=["matrixssl/sslDecode.c", "matrixssl/dtls.c"],
        termination_loops=["dtlsHsHashFragMsg"], native_timeout_s=20, cap_s=1800,
        assumptions=[
            "hs_dispatch: the per-message parsers of hsDecode.c are contract stubs (cursor anywhere in [c, end], any documented status, arbitrary next hsState); handshake-hash functions are stubs that read both ends of the range they are given; sslResetContext is a no-op",
            "hs_dispatch: RI-frag (proved preserved by the step): a DTLS reassembly in progress has fragMessage of fragLenStored bytes (8 quick / 16 thorough), 1 (quick) or 1..2 (thorough) stored fragments that are non-empty, inside the buffer, pairwise disjoint, listed without holes, fragTotal = sum < fragLenStored; TLS: fragIndex < fragTotal = size of fragMessage; session-ticket pointer/length agree; record of 1..16 / 12 (quick) or 1..20 / 12 (thorough) decrypted bytes; heap blocks <= 24 / 48 bytes",
        ],
        unwind=20,
        cases=[case("dtls12", "quick", 1, 16, 8, 1, 24), case("tls12", "quick", 0, 12, 8, 1, 24),
               case("dtls12_large", "thorough", 1, 20, 16, 2, 48), case("tls12_large", "thorough", 0, 12, 16, 2, 48)],
    )
    if only:
        h["cases"] = [c for c in h["cases"] if c["name"].split("_")[0] in only]
    return h
