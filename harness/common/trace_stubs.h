/* logging/trace back ends: empty bodies (formatting is not a subject of any
 * property here; psAssert in this configuration only logs and continues) */
#ifndef VF_TRACE_STUBS_H
#define VF_TRACE_STUBS_H
void _psTrace(const char *msg) { (void) msg; }
void _psTraceInt(const char *msg, int32 val) { (void) msg; (void) val; }
void _psTraceStr(const char *msg, const char *val) { (void) msg; (void) val; }
void _psTracePtr(const char *msg, const void *val) { (void) msg; (void) val; }
void _psError(const char *msg) { (void) msg; }
void _psErrorInt(const char *msg, int32 val) { (void) msg; (void) val; }
void _psErrorStr(const char *msg, const char *val) { (void) msg; (void) val; }
void psTraceBytes(const char *tag, const unsigned char *p, int l) { (void) tag; (void) p; (void) l; }
#endif
