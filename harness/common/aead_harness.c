/* aead_harness.c - record protection glue between the record layer and the
 * AEAD primitive (used by C02.a open binding, C10.c seal layout, C17.a nonce
 * uniqueness).
 * Units: the real csAesGcmEncrypt / csAesGcmDecrypt (matrixssl/cipherSuite.c),
 * csAesGcmEncryptTls13 / csAesGcmDecryptTls13, tls13MakeWriteNonce /
 * ReadNonce / EncryptAad / DecryptAad, psAesIncrSec (tls13CipherSuite.c).
 * Stubs with ghost state: psAesReadyGCM (nonce, AAD), psAesEncryptGCM,
 * psAesGetGCMTag, psAesDecryptGCM (arbitrary verdict).
 *   VF_FN 1: TLS1.2/DTLS GCM open   2: TLS1.2/DTLS GCM seal (twice)
 *   VF_FN 3: TLS1.3 GCM open        4: TLS1.3 GCM seal (twice)
 * VF_LEN: record body length (concrete).
 */
#include "vf.h"
#if VF_FN <= 2
# include "matrixssl/cipherSuite.c"
#else
# include "matrixssl/tls13CipherSuite.c"
#endif
#include "ssl_state.h"
#include "trace_stubs.h"

#ifndef VF_LEN
# define VF_LEN 40
#endif

static int g_ready, g_enc, g_tag, g_dec;
static unsigned char g_nonce[2][12], g_aad[2][13];
static uint32 g_aadlen[2];
static const unsigned char *g_enc_pt, *g_dec_ct;
static unsigned char *g_enc_ct, *g_tag_dst, *g_dec_pt;
static uint32 g_enc_len, g_dec_ctlen, g_dec_ptlen;
static uint8_t g_tag_bytes;
static int32 g_dec_rc;

void psAesReadyGCM(psAesGcm_t *ctx, const unsigned char IV[AES_IVLEN], const unsigned char *aad, psSize_t aadLen)
{
    int k = g_ready < 2 ? g_ready : 1, i;
    for (i = 0; i < 12; i++)
    {
        g_nonce[k][i] = IV[i];
    }
    for (i = 0; i < 13; i++)
    {
        g_aad[k][i] = (aad != NULL && i < aadLen) ? aad[i] : 0;
    }
    g_aadlen[k] = aadLen;
    g_ready++;
}
void psAesEncryptGCM(psAesGcm_t *ctx, const unsigned char *pt, unsigned char *ct, uint32_t len)
{
    g_enc++;
    g_enc_pt = pt;
    g_enc_ct = ct;
    g_enc_len = len;
}
void psAesGetGCMTag(psAesGcm_t *ctx, uint8_t tagBytes, unsigned char tag[AES_BLOCKLEN])
{
    g_tag++;
    g_tag_bytes = tagBytes;
    g_tag_dst = tag;
}
int32_t psAesDecryptGCM(psAesGcm_t *ctx, const unsigned char *ct, uint32_t ctLen, unsigned char *pt, uint32_t ptLen)
{
    g_dec++;
    g_dec_ct = ct;
    g_dec_ctlen = ctLen;
    g_dec_pt = pt;
    g_dec_ptlen = ptLen;
    g_dec_rc = vf_bool() ? PS_SUCCESS : PS_AUTH_FAIL;
    return g_dec_rc;
}

static unsigned char rec[VF_LEN + 1], outb[VF_LEN + 1];

static int seq_is_next(const unsigned char *after, const unsigned char *before)
{
    /* after == before + 1 as 64-bit big endian */
    uint64_t a = 0, b = 0;
    int i;
    for (i = 0; i < 8; i++)
    {
        a = (a << 8) | after[i];
        b = (b << 8) | before[i];
    }
    return a == b + 1;
}

VF_MAIN
{
    ssl_t *ssl = &S;
    ssl_t pre;
    int32 rc;
    int i, same = 1, dtls;

    VF_HAVOC(S, ssl_t);
    ssl->activeVersion = vf_version(VF_FN >= 3);
#if VF_FN >= 3
    ssl->activeVersion = v_tls_1_3 | v_tls_negotiated;
#endif
    vf_bytes(ssl->sec.readIV, 16);
    vf_bytes(ssl->sec.writeIV, 16);
    vf_bytes(ssl->sec.seq, 8);
    vf_bytes(ssl->sec.remSeq, 8);
#ifdef USE_TLS_1_3
    vf_bytes(ssl->sec.tls13ReadIv, 12);
    vf_bytes(ssl->sec.tls13WriteIv, 12);
#endif
    vf_bytes(ssl->epoch, 2);
    vf_bytes(ssl->rsn, 6);
    vf_bytes(ssl->rec.epoch, 2);
    vf_bytes(ssl->rec.rsn, 6);
    ssl->rec.type = vf_u8();
    ssl->rec.len = VF_LEN;
    ssl->outRecType = vf_u8();
    ssl->outRecLen = vf_u16();
    vf_bytes(rec, VF_LEN);
    pre = S;
    dtls = (ssl->activeVersion & v_dtls_any) && (ssl->activeVersion & v_tls_negotiated);

#if VF_FN == 1
    rc = csAesGcmDecrypt(ssl, rec, outb, VF_LEN);
    if (VF_LEN < 25)
    {
#if VF_LEN < 25
        VF_REACH("too_short");
#endif
        VF_ASSERT(rc < 0 && g_ready == 0 && g_dec == 0, "c02.gcm12_short_record_rejected_before_use");
    }
    else
    {
#if VF_LEN >= 25
        VF_REACH("opened");
#endif
        VF_ASSERT(g_ready == 1 && g_dec == 1, "c02.gcm12_one_open");
        for (i = 0; i < 4; i++)
        {
            same &= (g_nonce[0][i] == pre.sec.readIV[i]);
        }
        for (i = 0; i < 8; i++)
        {
            same &= (g_nonce[0][4 + i] == rec[i]);
        }
        VF_ASSERT(same, "c02.gcm12_nonce_is_iv_and_explicit_part");
        same = 1;
        for (i = 0; i < 8; i++)
        {
            unsigned char e = dtls ? ((i < 2) ? pre.rec.epoch[i] : pre.rec.rsn[i - 2]) : pre.sec.remSeq[i];
            same &= (g_aad[0][i] == e);
        }
        same &= (g_aad[0][8] == pre.rec.type);
        same &= (g_aad[0][9] == psEncodeVersionMaj(pre.activeVersion) && g_aad[0][10] == psEncodeVersionMin(pre.activeVersion));
        same &= (g_aad[0][11] == (((VF_LEN - 24) >> 8) & 0xff) && g_aad[0][12] == ((VF_LEN - 24) & 0xff));
        VF_ASSERT(same && g_aadlen[0] == 13, "c02.gcm12_aad_is_seq_type_version_length");
        VF_ASSERT(g_dec_ct == rec + 8 && g_dec_ctlen == VF_LEN - 8 && g_dec_ptlen == VF_LEN - 24 && g_dec_pt == outb,
            "c02.gcm12_ciphertext_and_tag_range");
        VF_ASSERT((rc < 0) == (g_dec_rc < 0), "c02.gcm12_verdict_propagated");
        if (rc >= 0)
        {
            VF_ASSERT(seq_is_next(ssl->sec.remSeq, pre.sec.remSeq), "c02.gcm12_seq_incremented_on_success");
        }
        else
        {
            VF_ASSERT(memcmp(ssl->sec.remSeq, pre.sec.remSeq, 8) == 0, "c02.gcm12_seq_unchanged_on_failure");
        }
    }
#elif VF_FN == 2
    {
        unsigned char seq1[8];
        rc = csAesGcmEncrypt(ssl, rec, outb, VF_LEN);
        if (VF_LEN != 0 && VF_LEN < 17)
        {
#if VF_LEN != 0 && VF_LEN < 17
            VF_REACH("too_short");
#endif
            VF_ASSERT(rc < 0 && g_ready == 0, "c10.gcm12_short_seal_rejected");
        }
        else if (VF_LEN >= 17)
        {
#if VF_LEN >= 17
            VF_REACH("sealed");
#endif
            VF_ASSERT(rc == VF_LEN && g_ready == 1 && g_enc == 1 && g_tag == 1, "c10.gcm12_one_seal");
            for (i = 0; i < 4; i++)
            {
                same &= (g_nonce[0][i] == pre.sec.writeIV[i]);
            }
            for (i = 0; i < 8; i++)
            {
                unsigned char e = dtls ? ((i < 2) ? pre.epoch[i] : pre.rsn[i - 2]) : pre.sec.seq[i];
                same &= (g_nonce[0][4 + i] == e);
                same &= (g_aad[0][i] == e);
            }
            VF_ASSERT(same, "c10.gcm12_nonce_and_aad_seq");
            VF_ASSERT(g_aad[0][8] == pre.outRecType && g_aad[0][9] == psEncodeVersionMaj(pre.activeVersion) &&
                g_aad[0][10] == psEncodeVersionMin(pre.activeVersion) &&
                g_aad[0][11] == (((VF_LEN - 16) >> 8) & 0xff) && g_aad[0][12] == ((VF_LEN - 16) & 0xff) && g_aadlen[0] == 13,
                "c10.gcm12_aad_type_version_length");
            VF_ASSERT(g_enc_pt == rec && g_enc_ct == outb && g_enc_len == VF_LEN - 16 && g_tag_dst == outb + VF_LEN - 16 && g_tag_bytes == 16,
                "c10.gcm12_ciphertext_then_16_byte_tag");
            if (!dtls)
            {
                VF_ASSERT(seq_is_next(ssl->sec.seq, pre.sec.seq), "c17.gcm12_seq_incremented_by_one");
                /* second record under the same key: a different nonce */
                memcpy(seq1, ssl->sec.seq, 8);
                rc = csAesGcmEncrypt(ssl, rec, outb, VF_LEN);
                VF_ASSERT(rc == VF_LEN && g_ready == 2, "c17.gcm12_second_seal");
                VF_ASSERT(memcmp(g_nonce[0], g_nonce[1], 12) != 0, "c17.gcm12_two_seals_two_nonces");
                VF_ASSERT(seq_is_next(ssl->sec.seq, seq1), "c17.gcm12_seq_strictly_increases");
            }
        }
    }
#elif VF_FN == 3
    rc = csAesGcmDecryptTls13(ssl, rec, rec, VF_LEN);
    if (VF_LEN <= 16)
    {
#if VF_LEN <= 16
        VF_REACH("too_short");
#endif
        VF_ASSERT(rc < 0 && g_ready == 0 && g_dec == 0, "c02.gcm13_short_record_rejected_before_use");
    }
    else
    {
#if VF_LEN > 16
        VF_REACH("opened");
#endif
        VF_ASSERT(g_ready == 1 && g_dec == 1, "c02.gcm13_one_open");
        for (i = 0; i < 12; i++)
        {
            unsigned char s = (i < 4) ? 0 : pre.sec.remSeq[i - 4];
            same &= (g_nonce[0][i] == (unsigned char) (s ^ pre.sec.tls13ReadIv[i]));
        }
        VF_ASSERT(same, "c02.gcm13_nonce_is_iv_xor_seq");
        VF_ASSERT(g_aadlen[0] == 5 && g_aad[0][0] == 23 && g_aad[0][1] == 3 && g_aad[0][2] == 3 &&
            g_aad[0][3] == ((VF_LEN >> 8) & 0xff) && g_aad[0][4] == (VF_LEN & 0xff), "c02.gcm13_aad_is_record_header");
        VF_ASSERT(g_dec_ct == rec && g_dec_ctlen == VF_LEN && g_dec_ptlen == VF_LEN - 16, "c02.gcm13_ciphertext_and_tag_range");
        VF_ASSERT((rc < 0) == (g_dec_rc < 0), "c02.gcm13_verdict_propagated");
        if (rc >= 0)
        {
            VF_ASSERT(seq_is_next(ssl->sec.remSeq, pre.sec.remSeq), "c02.gcm13_seq_incremented_on_success");
        }
        else
        {
            VF_ASSERT(memcmp(ssl->sec.remSeq, pre.sec.remSeq, 8) == 0, "c02.gcm13_seq_unchanged_on_failure");
        }
    }
#else
    {
        unsigned char seq1[8];
        uint64_t s0 = 0;
        for (i = 0; i < 8; i++)
        {
            s0 = (s0 << 8) | pre.sec.seq[i];
        }
        VF_ASSUME(s0 != 0xFFFFFFFFFFFFFFFFULL); /* key update is required before the counter wraps (RFC 8446 5.5) */
        rc = csAesGcmEncryptTls13(ssl, rec, outb, VF_LEN);
#if VF_LEN > 0
        VF_REACH("sealed");
        VF_ASSERT(rc == VF_LEN && g_ready == 1 && g_enc == 1 && g_tag == 1, "c10.gcm13_one_seal");
        for (i = 0; i < 12; i++)
        {
            unsigned char s = (i < 4) ? 0 : pre.sec.seq[i - 4];
            same &= (g_nonce[0][i] == (unsigned char) (s ^ pre.sec.tls13WriteIv[i]));
        }
        VF_ASSERT(same, "c10.gcm13_nonce_is_iv_xor_seq");
        VF_ASSERT(g_aadlen[0] == 5 && g_aad[0][0] == 23 && g_aad[0][1] == 3 && g_aad[0][2] == 3 &&
            g_aad[0][3] == ((pre.outRecLen >> 8) & 0xff) && g_aad[0][4] == (pre.outRecLen & 0xff), "c10.gcm13_aad_is_record_header");
        VF_ASSERT(g_enc_pt == rec && g_enc_ct == outb && g_enc_len == VF_LEN && g_tag_dst == outb + VF_LEN && g_tag_bytes == 16,
            "c10.gcm13_ciphertext_then_16_byte_tag");
        VF_ASSERT(seq_is_next(ssl->sec.seq, pre.sec.seq), "c17.gcm13_seq_incremented_by_one");
        memcpy(seq1, ssl->sec.seq, 8);
        rc = csAesGcmEncryptTls13(ssl, rec, outb, VF_LEN);
        VF_ASSERT(g_ready == 2 && memcmp(g_nonce[0], g_nonce[1], 12) != 0, "c17.gcm13_two_seals_two_nonces");
#endif
    }
#endif
    VF_REACH("end");
}
