/* heap_model.h - static-pool heap model for harnesses whose unit under test
 * allocates, reallocates and frees buffers of input-dependent size.
 *
 * CBMC's own malloc model creates one object per unwound call site and, with
 * symbolic sizes, memcpy/realloc over them does not terminate on this code
 * (see DESIGN.md).  Under CBMC this header therefore defines malloc / calloc /
 * realloc / free / memcpy / memmove over VF_HEAP_SLOTS static slots of
 * VF_HEAP_SLOT bytes with a ghost allocation size per slot:
 *   - malloc(n) takes the first free slot, logical size n (n <= VF_HEAP_SLOT is
 *     assumed: the bound of the claim)
 *   - free() / realloc() poison the old slot (logical size 0), so accesses
 *     through stale pointers and double frees are reported
 *   - memcpy / memmove check source and destination ranges against the
 *     logical sizes (vf_heap_bad) and copy byte-wise (CBMC checks the rest)
 * Natively (replay) nothing is defined: the real allocator runs under ASan.
 * Include after vf.h and before the unit under test.
 */
#ifndef VF_HEAP_MODEL_H
#define VF_HEAP_MODEL_H
#ifdef VF_CBMC

# ifndef VF_HEAP_SLOT
#  define VF_HEAP_SLOT 48
# endif
# define VF_HEAP_SLOTS 8
# ifdef VF_FAULT_ALLOC
/* vf.h routed malloc/calloc/realloc through the fault-drawing wrappers; the
   wrappers call the names defined here */
#  undef malloc
#  undef calloc
#  undef realloc
# endif

static unsigned char vf_h0[VF_HEAP_SLOT], vf_h1[VF_HEAP_SLOT], vf_h2[VF_HEAP_SLOT], vf_h3[VF_HEAP_SLOT],
    vf_h4[VF_HEAP_SLOT], vf_h5[VF_HEAP_SLOT], vf_h6[VF_HEAP_SLOT], vf_h7[VF_HEAP_SLOT];
static size_t vf_heap_sz[VF_HEAP_SLOTS];   /* 0 = free */
static int vf_heap_bad;                    /* access outside a live block / bad free */
static int vf_heap_live;

static unsigned char *vf_heap_base(int j)
{
    switch (j)
    {
    case 0: return vf_h0;
    case 1: return vf_h1;
    case 2: return vf_h2;
    case 3: return vf_h3;
    case 4: return vf_h4;
    case 5: return vf_h5;
    case 6: return vf_h6;
    default: return vf_h7;
    }
}
/* index of the slot p points into, or -1 */
static int vf_heap_slot_of(const void *p)
{
    int j, r = -1;
    for (j = 0; j < VF_HEAP_SLOTS; j++)
    {
        if (__CPROVER_POINTER_OBJECT(p) == __CPROVER_POINTER_OBJECT(vf_heap_base(j)))
        {
            r = j;
        }
    }
    return r;
}
static void vf_heap_chk(const void *p, size_t n)
{
    int j = vf_heap_slot_of(p);
    if (j >= 0 && n > 0 && (size_t) __CPROVER_POINTER_OFFSET(p) + n > vf_heap_sz[j])
    {
        vf_heap_bad++;
    }
}
void *malloc(size_t n)
{
    int j, to = -1;
    __CPROVER_assume(n > 0 && n <= VF_HEAP_SLOT);
    for (j = VF_HEAP_SLOTS - 1; j >= 0; j--)
    {
        if (vf_heap_sz[j] == 0)
        {
            to = j;
        }
    }
    __CPROVER_assume(to >= 0);
    vf_heap_sz[to] = n;
    vf_heap_live++;
    return vf_heap_base(to);
}
void *calloc(size_t a, size_t b)
{
    unsigned char *p;
    size_t i;
    __CPROVER_assume(a <= VF_HEAP_SLOT && b <= VF_HEAP_SLOT);
    p = (unsigned char *) malloc(a * b);
    for (i = 0; i < VF_HEAP_SLOT; i++)
    {
        if (i < a * b)
        {
            p[i] = 0;
        }
    }
    return p;
}
void free(void *p)
{
    int j;
    if (p == NULL)
    {
        return;
    }
    j = vf_heap_slot_of(p);
    if (j < 0 || __CPROVER_POINTER_OFFSET(p) != 0 || vf_heap_sz[j] == 0)
    {
        vf_heap_bad++;   /* not a live block: double free / invalid free */
        return;
    }
    vf_heap_sz[j] = 0;
    vf_heap_live--;
}
void *memmove(void *d, const void *s, size_t n)
{
    unsigned char tmp[VF_HEAP_SLOT];
    size_t i;
    vf_heap_chk(d, n);
    vf_heap_chk(s, n);
    if (n > VF_HEAP_SLOT)
    {
        /* longer than any modelled block: certainly outside both */
        vf_heap_bad++;
        return d;
    }
    for (i = 0; i < VF_HEAP_SLOT; i++)
    {
        if (i < n)
        {
            tmp[i] = ((const unsigned char *) s)[i];
        }
    }
    for (i = 0; i < VF_HEAP_SLOT; i++)
    {
        if (i < n)
        {
            ((unsigned char *) d)[i] = tmp[i];
        }
    }
    return d;
}
void *memcpy(void *d, const void *s, size_t n)
{
    return memmove(d, s, n);
}
void *realloc(void *p, size_t n)
{
    unsigned char *q;
    size_t i, old;
    int j;
    if (p == NULL)
    {
        return malloc(n);
    }
    j = vf_heap_slot_of(p);
    if (j < 0 || vf_heap_sz[j] == 0)
    {
        vf_heap_bad++;
        return NULL;
    }
    old = vf_heap_sz[j];
    q = (unsigned char *) malloc(n);
    for (i = 0; i < VF_HEAP_SLOT; i++)
    {
        if (i < n && i < old)
        {
            q[i] = ((unsigned char *) p)[i];
        }
    }
    vf_heap_sz[j] = 0;
    vf_heap_live--;
    return q;
}
# ifdef VF_FAULT_ALLOC
#  define malloc vf_malloc
#  define calloc vf_calloc
#  define realloc vf_realloc
# endif
# define VF_HEAP_OK() (vf_heap_bad == 0)
#else
# define VF_HEAP_OK() 1
#endif
#endif
