# C04 - Handshake completes only if the peer was authenticated or the app overrode
def VERDICT(name, mode, renames, units):
    return dict(
        name=name, src="cert_verdict.c", checks=[],
        renames=renames, units=units,
        functions=["parseCertificate", "matrixUserCertValidator"] if mode == 12 else
                  ["tls13ValidateCertChain", "matrixSslValidatePeerCerts", "psCheckValidationResult", "psCheckSetPathLenFailure", "tls13HandleUserCertCbResult", "matrixUserCertValidator"],
        sources=["matrixssl/hsDecode.c", "matrixssl/tls13Authenticate.c", "matrixssl/matrixssl.c"],
        assumptions=["cert_verdict: psX509ParseCert hands out harness certificates; matrixValidateCertsExt is a stub returning an arbitrary code and leaving an arbitrary authStatus (any of the 10 values the validator can leave) and arbitrary authFailFlags on each certificate; the callback is absent or returns an arbitrary int; chain of 1 or 2 certificates"],
        unwindset={"memcmpct:/./": 600, "all_pass:/for/": 4, "matrixValidateCertsExt:/for/": 4, "parseCertificate:/while \\(certChainLen >= 3\\)/": 4, "parseCertificate:/while \\(cert\\)/": 4,
                   "psCheckValidationResult:/while \\(cert\\)/": 4, "psCheckSetPathLenFailure:/while \\(cert\\)/": 4},
        cases=[dict(name="m%d" % mode, defs={"VF_MODE": mode})],
    )


HARNESSES = [
    VERDICT("verdict_tls12", 12, {"matrixssl/matrixssl.c": ["matrixValidateCertsExt"]}, ["matrixssl/matrixssl.c", "core/src/corelib_strings.c"]),
    VERDICT("verdict_tls13", 13, {"matrixssl/matrixssl.c": ["matrixValidateCertsExt"]}, ["matrixssl/matrixssl.c", "core/src/corelib_strings.c"]),
    # proof of possession cannot be skipped: the TLS 1.3 transition gate (same harness as C06.d)
    dict(name="pop_order13", dir="C06", src="hs_state13.c", checks=[],
         functions=["tls13CheckHsState"], sources=["matrixssl/tls13Decode.c"],
         assumptions=["pop_order13: all 256 hsState values x all 256 message types x both roles; oracle = RFC 8446 Appendix A transition table (Finished only in WAIT_FINISHED, CertificateVerify only directly after Certificate)"],
         cases=[dict(name="all", defs={})]),
]
PROPERTY = dict(level='model_checking',
    claim='The certificate step of the handshake (TLS<=1.2 parseCertificate; TLS 1.3 tls13ValidateCertChain) succeeds only if validation returned >= 0 with every certificate PS_CERT_AUTH_PASS and a trust-anchor list configured, or a registered callback returned 0 / ALLOW_ANON; the same oracle text is asserted for both protocol families; in TLS 1.3 Finished is accepted only in WAIT_FINISHED, i.e. never while a CertificateVerify is outstanding.',
    bounds='chains of 1-2 certificates; validation outcome arbitrary (10 status values x arbitrary flags x arbitrary return code)',
    outside='the signature checks of ServerKeyExchange / CertificateVerify themselves and the state a parsed Certificate message leaves (WAIT_CV vs WAIT_FINISHED for an empty list) are not encoded',
    explanation='The certificate step of the handshake (TLS<=1.2 parseCertificate; TLS 1.3 tls13ValidateCertChain) succeeds only if validation returned >= 0 with every certificate PS_CERT_AUTH_PASS and a trust-anchor list configured, or a registered callback returned 0 / ALLOW_ANON; the same oracle text is asserted for both protocol families.',
    assumptions=[])
