/* cert_verdict.c - C04.a/b: what is done with the result of chain validation.
 *
 * VF_MODE 12: the real parseCertificate (matrixssl/hsDecode.c, TLS <= 1.2) and
 *             matrixUserCertValidator (matrixssl.c is not linked: re-stated
 *             below from its contract? no - the real one is linked)
 * VF_MODE 13: the real tls13ValidateCertChain / matrixSslValidatePeerCerts /
 *             psCheckValidationResult / psCheckSetPathLenFailure /
 *             tls13HandleUserCertCbResult (matrixssl/tls13Authenticate.c)
 *
 * Stubs: psX509ParseCert hands out harness-owned certificates;
 * matrixValidateCertsExt returns an arbitrary code and leaves arbitrary
 * authStatus/authFailFlags on every certificate (its real post-conditions are
 * C03's subject); the application callback is absent or returns an arbitrary
 * value.  The SAME oracle is asserted for both protocol families:
 *
 *   the certificate step succeeds  =>
 *        ( validation returned >= 0  and every certificate is
 *          PS_CERT_AUTH_PASS  and a trust-anchor list was configured )
 *     or ( a callback is registered and it returned 0 or
 *          SSL_ALLOW_ANON_CONNECTION )
 */
#include "vf.h"
#if VF_MODE == 12
# include "matrixssl/hsDecode.c"
#else
# include "matrixssl/tls13Authenticate.c"
#endif
#include "ssl_state.h"
#include "trace_stubs.h"

#define NCERT 2
static psX509Cert_t K0, K1;
static psX509Cert_t *const KP[NCERT] = { &K0, &K1 };
static sslKeys_t S_keys;
static psX509Cert_t S_ca;
static int g_parse_calls, g_validate_calls, g_cb_calls;
static int32 g_validate_rc, g_cb_rc, g_cb_alert;

int32 psX509ParseCert(psPool_t *pool, const unsigned char *pp, uint32 size, psX509Cert_t **outcert, int32 flags)
{
    if (g_parse_calls >= NCERT || vf_bool())
    {
        *outcert = NULL;
        g_parse_calls = NCERT + 1;
        return vf_bool() ? PS_MEM_FAIL : PS_PARSE_FAIL;
    }
    *outcert = KP[g_parse_calls++];
    (*outcert)->version = 2;
    return (int32) size;
}
void psX509FreeCert(psX509Cert_t *cert)
{
}
int32 csCheckCertAgainstCipherSuite(int32 sigAlg, int32 cipherType)
{
    return vf_bool();
}
static void arbitrary_status(psX509Cert_t *c)
{
    uint8_t k = vf_u8();
    VF_ASSUME(k < 10);
    /* every value psX509AuthenticateCert / matrixValidateCertsExt can leave */
    c->authStatus = (k == 0) ? PS_FALSE : (k == 1) ? PS_CERT_AUTH_PASS : (k == 2) ? PS_CERT_AUTH_FAIL_BC :
        (k == 3) ? PS_CERT_AUTH_FAIL_DN : (k == 4) ? PS_CERT_AUTH_FAIL_SIG : (k == 5) ? PS_CERT_AUTH_FAIL_REVOKED :
        (k == 6) ? PS_CERT_AUTH_FAIL : (k == 7) ? PS_CERT_AUTH_FAIL_EXTENSION : (k == 8) ? PS_CERT_AUTH_FAIL_PATH_LEN :
        PS_CERT_AUTH_FAIL_AUTHKEY;
    c->authFailFlags = vf_u32();
}
int32 matrixValidateCertsExt(psPool_t *pool, psX509Cert_t *subjectCerts, psX509Cert_t *issuerCerts, char *expectedName,
    psX509Cert_t **foundIssuer, void *hwCtx, void *poolUserPtr, const matrixValidateCertsOptions_t *opts)
{
    psX509Cert_t *c = subjectCerts;
    int i;
    g_validate_calls++;
    for (i = 0; i < NCERT && c != NULL; i++, c = c->next)
    {
        arbitrary_status(c);
    }
    *foundIssuer = NULL;
    g_validate_rc = vf_i32();
    return g_validate_rc;
}
void matrixSslReorderCertChain(psX509Cert_t *a_cert)
{
}
static int32_t vf_callback(ssl_t *ssl, psX509Cert_t *cert, int32_t alert)
{
    g_cb_calls++;
    g_cb_alert = alert;
    g_cb_rc = vf_i32();
    /* documented return values: 0, SSL_ALLOW_ANON_CONNECTION, an SSL_ALERT_
       code (1..120), or a negative internal error */
    VF_ASSUME(g_cb_rc < 0 || g_cb_rc <= 120 || g_cb_rc == SSL_ALLOW_ANON_CONNECTION);
    return g_cb_rc;
}
/* matrixUserCertValidator lives in matrixssl.c (not linked here); identical
   text is used for both protocol families, so it is included from there */
#define USE_CERT_VALIDATE_ONLY_USER_VALIDATOR
int32 matrixUserCertValidator(ssl_t *ssl, int32 alert, psX509Cert_t *subjectCert, sslCertCb_t certValidator);

static int all_pass(int n)
{
    int i, ok = 1;
    for (i = 0; i < NCERT; i++)
    {
        if (i < n && KP[i]->authStatus != PS_CERT_AUTH_PASS)
        {
            ok = 0;
        }
    }
    return ok;
}

VF_MAIN
{
    ssl_t *ssl = &S;
    int32 rc;
    int have_cb, have_ca, ncert;
    unsigned char msg[16];
    unsigned char *cp = msg;

    VF_HAVOC(S, ssl_t);
    vf_ssl_scalars(ssl, VF_MODE == 13);
    vf_ssl_pointers(ssl);
    memset(&K0, 0, sizeof(K0));
    memset(&K1, 0, sizeof(K1));
    vf_bytes(&K0.subject.hash, SHA1_HASH_SIZE);
    vf_bytes(&K0.issuer.hash, SHA1_HASH_SIZE);
    ssl->err = SSL_ALERT_NONE;
    have_cb = vf_bool();
    ssl->sec.validateCert = have_cb ? vf_callback : NULL;
    have_ca = vf_bool();
    memset(&S_keys, 0, sizeof(S_keys));
    S_keys.CAcerts = have_ca ? &S_ca : NULL;
    ssl->keys = vf_bool() ? &S_keys : NULL;
    have_ca = have_ca && ssl->keys != NULL;
    ssl->validateCertsOpts.max_verify_depth = vf_i32();
    ssl->expectedName = NULL;
    ssl->sec.cert = NULL;
    ssl->bFlags = vf_u32();
    ssl->extFlags.status_request = vf_bool();
    ssl->extFlags.status_request_v2 = vf_bool();

#if VF_MODE == 12
    vf_bytes(msg, sizeof(msg));
    {
        uint8_t n = vf_u8();
        VF_ASSUME(n <= sizeof(msg));
        rc = parseCertificate(ssl, &cp, msg + n);
    }
    ncert = (g_parse_calls > NCERT) ? 0 : g_parse_calls;
#else
    /* the chain was parsed by tls13ParseCertificate: one or two certificates */
    ncert = vf_bool() ? 2 : 1;
    ssl->sec.cert = &K0;
    K0.next = (ncert == 2) ? &K1 : NULL;
    rc = tls13ValidateCertChain(ssl);
    (void) cp;
#endif

    if (rc == MATRIXSSL_SUCCESS)
    {
        VF_REACH("certificate_step_succeeded");
        VF_ASSERT(g_validate_calls == 1, "c04.validation_consulted");
        VF_ASSERT((g_validate_rc >= 0 && ncert >= 1 && all_pass(ncert) && have_ca) ||
            (have_cb && g_cb_calls == 1 && (g_cb_rc == 0 || g_cb_rc == SSL_ALLOW_ANON_CONNECTION)),
            "c04.accept_only_if_validated_or_callback_accepted");
        VF_ASSERT(ssl->err == SSL_ALERT_NONE, "c04.no_pending_alert_on_success");
        if (!(g_validate_rc >= 0 && all_pass(ncert) && have_ca))
        {
            /* the callback was told that there is a failure */
            VF_ASSERT(g_cb_alert != 0, "c04.callback_sees_the_failure");
        }
    }
    else
    {
        VF_REACH("certificate_step_failed");
        VF_ASSERT(rc < 0, "c04.failure_is_error_code");
        VF_ASSERT(ssl->err != SSL_ALERT_NONE, "c04.failure_queues_fatal_alert");
    }
    if (!have_cb && g_validate_calls == 1 && !(g_validate_rc >= 0 && all_pass(ncert) && have_ca))
    {
        VF_REACH("failure_without_callback");
        VF_ASSERT(rc != MATRIXSSL_SUCCESS, "c04.no_callback_every_failure_fatal");
    }
    VF_REACH("end");
}
