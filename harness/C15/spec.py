# C15 - After a fatal error or closure a session stays dead
HARNESSES = [
    COMMON["enc_gate"](12), COMMON["enc_gate"](13),
    COMMON["dec12"]("poison12", ["C15"], COMMON["dec12_cases"](64, 40, dtls_only=("dtls10", "dtls12n")) + COMMON["dec12_cases"](96, 40, tier="thorough", dtls_only=("dtls10n", "dtls12"))),
    COMMON["dec13"]("poison13", ["C15"], ns=((48, "quick"), (96, "thorough"))),
    COMMON["api_recv"](only=("sent_tls12",)),
]
PROPERTY = dict(level='model_checking',
    claim='Every decode return with a queued fatal alert poisons the session (SSL_FLAGS_ERROR) and never reports success/data; received fatal alerts / close_notify flag the session; undecryptable TLS 1.3 records are skipped only for rejected early data within the limit. matrixSslSentData reports REQUEST_CLOSE (never success or completion) once a queued fatal alert has been flushed; the encoders refuse to seal after error or closure.',
    bounds='as C01',
    outside='encode-side guards and the API entry guard are not yet encoded',
    explanation='Every decode return with a queued fatal alert poisons the session (SSL_FLAGS_ERROR) and never reports success/data; received fatal alerts / close_notify flag the session; undecryptable TLS 1.3 records are skipped only for rejected early data within the limit.',
    assumptions=[])
