# C15 - After a fatal error or closure a session stays dead
HARNESSES = [
    COMMON["dec12"]("poison12", ["C15"], COMMON["dec12_cases"](64, 40, dtls_only=("dtls10", "dtls12n")) + COMMON["dec12_cases"](96, 56, tier="thorough")),
    COMMON["dec13"]("poison13", ["C15"], ns=((48, "quick"), (96, "thorough"))),
]
PROPERTY = dict(level="model_checking", explanation="", bounds="", outside="", assumptions=[])
