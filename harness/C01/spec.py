# C01 - App data flows only after an authenticated, completed handshake
HARNESSES = [
    COMMON["enc_gate"](12), COMMON["enc_gate"](13),
    COMMON["dec12"]("dec12_gate", ["C01"], COMMON["dec12_cases"](64, 40, dtls_only=("dtls10", "dtls12n")) + COMMON["dec12_cases"](96, 40, tier="thorough", dtls_only=("dtls10n", "dtls12"))),
    COMMON["dec13"]("dec13_gate", ["C01"], ns=((48, "quick"), (96, "thorough"))),
    COMMON["api_recv"](only=("recv_tls12", "recv_tls13")),
]
PROPERTY = dict(level='model_checking',
    claim='For every RI-state of a session and every input buffer within the bounds, the real record decoders return application data only from a record of (inner) type application_data, decrypted (and MACed) by the read cipher, in hsState DONE (or the documented SERVER_HELLO / TLS 1.3 early-data exceptions); decided by CBMC over all values, one decode call from an arbitrary state (inductive step). The same holds at the API: matrixSslReceivedData reports MATRIXSSL_APP_DATA only when the decoder returned SSL_PROCESS_DATA and hands out exactly the region the decoder released; matrixSslEncode / tls13EncodeAppData refuse to seal application data before the handshake is done.',
    bounds='input buffer 64 bytes (TLS<=1.2), 40 bytes / <=2 records (DTLS), 48 bytes (TLS 1.3); thorough: 96 bytes TLS, all four DTLS version cases at 40 bytes, 96 bytes TLS 1.3; activeVersion enumerated over the enabled versions',
    outside='that hsState DONE is only reached through an authenticated handshake is C04/C06; buffers larger than the bound; the decoder is a contract stub in the API harness (its contract is what the decoder harnesses assert)',
    explanation='For every RI-state of a session and every input buffer within the bounds, the real record decoders return application data only from a record of (inner) type application_data, decrypted (and MACed) by the read cipher, in hsState DONE (or the documented SERVER_HELLO / TLS 1.3 early-data exceptions); decided by CBMC over all values, one decode call from an arbitrary state (inductive step).',
    assumptions=[])
