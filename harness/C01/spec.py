# C01 - App data flows only after an authenticated, completed handshake
def DEC12_UNWIND(n, dtls=1):
    """loop bounds of matrixSslDecodeTls12AndBelow for an n-byte input buffer,
    derived from the code: DTLS records are >= 14 bytes, the Lucky-13 dummy
    loops run 256 times, the pad loop at most rec.len <= n times, the SHA
    blinding loops at most (13+n)/64+1 times"""
    # DTLS: each consumed record is >= 14 bytes; in a TLS session the three
    # decodeMore back-edges are unreachable (bound 1 = "never taken", proved by
    # the unwinding assertion)
    recs = (n // 14 + 1) if dtls else 1
    sha = (13 + n) // 64 + 3
    return {
        "matrixSslDecodeTls12AndBelow.0": recs, "matrixSslDecodeTls12AndBelow.1": recs,
        "matrixSslDecodeTls12AndBelow.9": recs,
        "matrixSslDecodeTls12AndBelow.2": 257, "matrixSslDecodeTls12AndBelow.3": n + 1,
        "matrixSslDecodeTls12AndBelow.4": 257, "matrixSslDecodeTls12AndBelow.5": 257,
        "matrixSslDecodeTls12AndBelow.6": sha, "matrixSslDecodeTls12AndBelow.7": sha,
        "matrixSslDecodeTls12AndBelow.8": sha,
        "addCompressCount.0": sha, "addCompressCount.1": sha, "addCompressCount.2": sha,
        "addCompressCount.3": sha, "vf_decrypt.0": n + 1,
    }


def DEC12_CASES(n_tls, n_dtls, tier="quick"):
    """activeVersion is enumerated (concrete) so that symbolic execution does
    not fork on TLS-vs-DTLS; everything else stays symbolic"""
    out = []
    vers = [("undef", "v_undefined", 0), ("tls11", "v_tls_1_1", 0), ("tls11n", "(v_tls_1_1|v_tls_negotiated)", 0),
            ("tls12", "v_tls_1_2", 0), ("tls12n", "(v_tls_1_2|v_tls_negotiated)", 0),
            ("dtls10", "v_dtls_1_0", 1), ("dtls10n", "(v_dtls_1_0|v_tls_negotiated)", 1),
            ("dtls12", "v_dtls_1_2", 1), ("dtls12n", "(v_dtls_1_2|v_tls_negotiated)", 1)]
    for nm, v, d in vers:
        n = n_dtls if d else n_tls
        out.append(dict(name="%s_n%d" % (nm, n), tier=tier,
                        defs={"VF_N": n, "VF_DTLS": d, "VF_VER": '"%s"' % v if False else v},
                        unwindset=DEC12_UNWIND(n, d)))
    return out


DEC12 = dict(
    name="dec12_gate", dir="common", src="dec12_harness.c",
    renames={"matrixssl/sslDecode.c": ["parseSSLHandshake"]},
    units=["matrixssl/dtls.c", "matrixssl/hsNegotiateVersion.c"],
    defs={"VF_GROUP_C01": None},
    functions=["matrixSslDecodeTls12AndBelow", "handleRecordHdr", "validateRecordHdrType",
               "validateRecordHdrVersion", "validateRecordHdrLen", "addCompressCount",
               "dtlsChkReplayWindow", "dtlsCompareEpoch", "psVerFromEncodingMajMin"],
    sources=["matrixssl/sslDecode.c", "matrixssl/dtls.c", "matrixssl/hsNegotiateVersion.c"],
    cases=DEC12_CASES(64, 27) + DEC12_CASES(96, 40, tier="thorough"),
)
HARNESSES = [DEC12]
PROPERTY = dict(level="model_checking", explanation="", bounds="", outside="", assumptions=[])
