# C01 - App data flows only after an authenticated, completed handshake
HARNESSES = [
    COMMON["dec12"]("dec12_gate", ["C01"], COMMON["dec12_cases"](64, 40, dtls_only=("dtls10", "dtls12n")) + COMMON["dec12_cases"](96, 56, tier="thorough")),
    COMMON["dec13"]("dec13_gate", ["C01"], ns=((48, "quick"), (96, "thorough"))),
]
PROPERTY = dict(level="model_checking", explanation="", bounds="", outside="", assumptions=[])
