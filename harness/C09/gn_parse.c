/* gn_parse.c - C09.b / C05.d: the real parseGeneralNames (crypto/keyformat/
 * x509.c) with the real asn1.c on an arbitrary DER buffer of exactly VF_SIZE
 * bytes; allocations are real (CBMC heap model).
 * Post-conditions for every entry stored, whatever the return code:
 *   - data is NUL-terminated at dataLen (inside its allocation)
 *   - dNSName / rfc822Name / URI contain only printable characters, so no
 *     embedded NUL: strlen(data) == dataLen
 *   - iPAddress has at least 4 octets
 * and the cursor stays inside the buffer on success.
 */
#include "vf.h"
#include "crypto/keyformat/x509.c"
#include "trace_stubs.h"

#ifndef VF_SIZE
# define VF_SIZE 8
#endif
static unsigned char B[VF_SIZE];

VF_MAIN
{
    const unsigned char *p = B;
    x509GeneralName_t *name = NULL, *n;
    int32_t rc;
    int i, count = 0;
    uint8_t len = vf_u8();
    int16_t limit = (int16_t) (vf_bool() ? 1 : -1);

    vf_bytes(B, VF_SIZE);
    VF_ASSUME(len <= VF_SIZE);

    rc = parseGeneralNames(NULL, &p, len, B + VF_SIZE, &name, limit);

    if (rc >= 0)
    {
        VF_REACH("parsed");
        VF_ASSERT(p >= B && p <= B + VF_SIZE, "c09.gn_cursor_inside");
    }
    for (i = 0, n = name; i < VF_SIZE / 3 + 1 && n != NULL; i++, n = n->next)
    {
        count++;
        if (n->data != NULL)
        {
            unsigned j;
            int printable = 1;
            if (i == 1)
            {
                VF_REACH("second_entry_stored");
            }
            VF_ASSERT(n->dataLen <= VF_SIZE, "c09.gn_datalen_bounded");
            VF_ASSERT(n->data[n->dataLen] == 0, "c09.gn_nul_terminated");
            for (j = 0; j < VF_SIZE; j++)
            {
                if (j < n->dataLen && (n->data[j] < ' ' || n->data[j] > '~'))
                {
                    printable = 0;
                }
            }
            if (n->id == GN_DNS || n->id == GN_EMAIL || n->id == GN_URI)
            {
                VF_ASSERT(printable, "c05.gn_text_entries_printable_no_embedded_nul");
            }
            if (n->id == GN_IP)
            {
                VF_ASSERT(n->dataLen >= 4, "c09.gn_ip_min_len");
            }
        }
    }
    VF_ASSERT(n == NULL, "c09.gn_list_bounded");
    if (rc >= 0 && len >= 3)
    {
        VF_ASSERT(count >= 1, "c09.gn_success_stores_entry");
    }
#ifdef VF_FAULT_ALLOC
    /* C19: a failed allocation is reported, never papered over */
    if (vf_alloc_faults > 0)
    {
        VF_REACH("allocation_failed");
        VF_ASSERT(rc < 0, "c19.gn_alloc_failure_reported");
    }
#endif
    VF_REACH("end");
}
