/* x509_prims.c - C09.c: the small field parsers psX509ParseCert is built from
 * (crypto/keyformat/x509.c): psX509GetSignature, getSerialNum,
 * getExplicitVersion, getTimeValidity, getImplicitBitString - each on an
 * arbitrary buffer that is an object of exactly VF_SIZE bytes, with the
 * "bytes available" argument equal to that size (what the certificate parser
 * passes: end - p).
 * Decided: no access outside the buffer (CBMC memory checks; copies go
 * through the heap model's checked memcpy), the cursor stays inside, stored
 * lengths fit the buffer.
 */
#include "vf.h"
#define VF_HEAP_SLOT 48
#include "heap_model.h"
#include "crypto/cryptoImpl.h"
#include "crypto/keyformat/x509.c"
#include "trace_stubs.h"

#ifndef VF_SIZE
# define VF_SIZE 10
#endif
static unsigned char B[VF_SIZE];

VF_MAIN
{
    const unsigned char *p = B;
    int32_t rc;
    unsigned char *out = NULL;
    psSize_t outLen = 0;

    vf_bytes(B, VF_SIZE);
#if VF_OP == 0
    rc = psX509GetSignature(NULL, &p, VF_SIZE, &out, &outLen);
#elif VF_OP == 1
    rc = getSerialNum(NULL, &p, VF_SIZE, &out, &outLen);
#elif VF_OP == 2
    {
        int32_t val = 0;
        rc = getExplicitVersion(&p, VF_SIZE, 0, &val);
    }
#elif VF_OP == 3
    {
        int32_t t1 = 0, t2 = 0;
        char *nb = NULL, *na = NULL;
        rc = getTimeValidity(NULL, &p, VF_SIZE, &t1, &t2, &nb, &na);
    }
#else
    rc = getImplicitBitString(NULL, &p, VF_SIZE, 1, &out, &outLen);
#endif
    if (rc >= 0)
    {
        VF_REACH("parsed");
        VF_ASSERT(p >= B && p <= B + VF_SIZE, "c09.x509_field_cursor_inside_input");
        VF_ASSERT(outLen <= VF_SIZE, "c09.x509_field_length_fits_input");
    }
    else
    {
        VF_REACH("refused");
    }
#ifdef VF_CBMC
    VF_ASSERT(VF_HEAP_OK(), "c09.x509_field_copies_inside_input_and_allocation");
#endif
    VF_REACH("end");
}
