/* dn_attrs.c - C09.c / C19: the distinguished-name parser
 * (psX509GetDNAttributes, crypto/keyformat/x509.c) with the real asn1.c on an
 * arbitrary buffer that is an object of exactly VF_SIZE bytes.
 * Decided: no access outside the buffer, cursor inside on success; with
 * VF_FAULT_ALLOC: every allocation may fail - no NULL dereference, failure is
 * reported.
 */
#include "vf.h"
#define VF_HEAP_SLOT 64
#include "heap_model.h"
#include "crypto/cryptoImpl.h"
#include "crypto/keyformat/x509.c"
#include "trace_stubs.h"

#ifndef VF_SIZE
# define VF_SIZE 28
#endif
static unsigned char B[VF_SIZE];
static x509DNattributes_t A;

int32_t psSha1Init(psSha1_t *c) { return 0; }
void psSha1Update(psSha1_t *c, const unsigned char *b, uint32_t l)
{
    if (l > 0)
    {
        volatile unsigned char t = b[0];
        t ^= b[l - 1];
        (void) t;
    }
}
void psSha1Final(psSha1_t *c, unsigned char *o) { }

VF_MAIN
{
    const unsigned char *p = B;
    int32_t rc;

    vf_bytes(B, VF_SIZE);
    memset(&A, 0, sizeof(A));
    rc = psX509GetDNAttributes(NULL, &p, VF_SIZE, &A, vf_bool() ? CERT_STORE_DN_BUFFER : 0);
    if (rc >= 0)
    {
        VF_REACH("parsed");
        VF_ASSERT(p >= B && p <= B + VF_SIZE, "c09.dn_cursor_inside_input");
    }
    else
    {
        VF_REACH("refused");
    }
#ifdef VF_FAULT_ALLOC
    if (vf_alloc_faults > 0)
    {
        VF_REACH("allocation_failed");
    }
#endif
#ifdef VF_CBMC
    VF_ASSERT(VF_HEAP_OK(), "c09.dn_copies_inside_input_and_allocation");
#endif
    VF_REACH("end");
}
