/* ocsp_single.c - C09: the OCSP SingleResponse parser (parseSingleResponse,
 * crypto/keyformat/x509.c) on an arbitrary buffer of exactly VF_SIZE bytes.
 * Decided: no access outside the buffer; on success the cursor and every
 * pointer/length pair stored in the result lie inside the buffer.
 */
#include "vf.h"
#include "crypto/cryptoImpl.h"
#include "crypto/keyformat/x509.c"
#include "trace_stubs.h"

#ifndef VF_SIZE
# define VF_SIZE 40
#endif
static unsigned char B[VF_SIZE];
static psOcspSingleResponse_t R;

int32 psBrokenDownTimeImport(psBrokenDownTime_t *t, const char *string, size_t time_string_len, unsigned int opts)
{
    return vf_bool() ? 0 : -1;
}
static int inside(const unsigned char *p, uint32_t n)
{
    return p >= B && p <= B + VF_SIZE && n <= (uint32_t) (B + VF_SIZE - p);
}

VF_MAIN
{
    const unsigned char *p = B;
    int32_t rc;

    vf_bytes(B, VF_SIZE);
    memset(&R, 0, sizeof(R));

    rc = parseSingleResponse(VF_SIZE, &p, B + VF_SIZE, &R);

    if (rc >= 0)
    {
        VF_REACH("parsed");
        VF_ASSERT(p >= B && p <= B + VF_SIZE, "c09.ocsp_single_cursor_inside_input");
        VF_ASSERT(inside(R.certIdSerial, R.certIdSerialLen), "c09.ocsp_single_serial_inside_input");
        VF_ASSERT(inside(R.thisUpdate, R.thisUpdateLen), "c09.ocsp_single_this_update_inside_input");
        VF_ASSERT(R.nextUpdate == NULL || inside(R.nextUpdate, R.nextUpdateLen), "c09.ocsp_single_next_update_inside_input");
        VF_ASSERT(inside(R.certIdNameHash, 1) && inside(R.certIdKeyHash, 0), "c09.ocsp_single_hashes_inside_input");
    }
    else
    {
        VF_REACH("refused");
    }
    VF_REACH("end");
}
