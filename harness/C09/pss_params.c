/* pss_params.c - C09.c: the RSASSA-PSS-params parser of the certificate
 * parser (getRsaPssParams, crypto/keyformat/x509.c) with the real asn1.c on an
 * arbitrary buffer that is an object of exactly VF_SIZE bytes, both passes.
 * Decided: no access outside the buffer; cursor inside on success.
 */
#include "vf.h"
#include "crypto/cryptoImpl.h"
#include "crypto/keyformat/x509.c"
#include "trace_stubs.h"

#ifndef VF_SIZE
# define VF_SIZE 24
#endif
static unsigned char B[VF_SIZE];
static psX509Cert_t CERT;

VF_MAIN
{
    const unsigned char *p = B;
    int32 rc;

    vf_bytes(B, VF_SIZE);
    memset(&CERT, 0, sizeof(CERT));
    CERT.pssHash = vf_i32();
    CERT.maskGen = vf_i32();
    CERT.maskHash = vf_i32();
    CERT.saltLen = vf_u16();
    rc = getRsaPssParams(&p, VF_SIZE, &CERT, vf_bool());
    if (rc >= 0)
    {
        VF_REACH("parsed");
        VF_ASSERT(p >= B && p <= B + VF_SIZE, "c09.pss_params_cursor_inside_input");
    }
    else
    {
        VF_REACH("refused");
    }
    VF_REACH("end");
}
