/* ec_pubkey.c - C09.c: the subjectPublicKey parser for EC keys (getEcPubKey,
 * crypto/pubkey/ecc_parse_mem.c) on an arbitrary buffer that is an object of
 * exactly VF_SIZE bytes (len = VF_SIZE).  The curve lookup accepts or refuses
 * arbitrarily; psEccX963ImportKey is a checking stub (point bytes inside the
 * buffer); SHA-1 reads both ends of its input.
 */
#include "vf.h"
#include "crypto/cryptoImpl.h"
#include "crypto/pubkey/ecc_parse_mem.c"
#include "trace_stubs.h"

#ifndef VF_SIZE
# define VF_SIZE 12
#endif
static unsigned char B[VF_SIZE];
static int g_bad_window;
static psEccCurve_t curve;

int32_t getEccParamByOid(uint32_t oid, const psEccCurve_t **c)
{
    *c = &curve;
    return vf_bool() ? 0 : -1;
}
int32_t psEccX963ImportKey(psPool_t *pool, const unsigned char *in, psSize_t inlen, psEccKey_t *key, const psEccCurve_t *c)
{
    if (in < B || in > B + VF_SIZE || (psSize_t) (B + VF_SIZE - in) < inlen)
    {
        g_bad_window++;
    }
    return vf_bool() ? 0 : -1;
}
int32_t psSha1Init(psSha1_t *c) { return 0; }
void psSha1Update(psSha1_t *c, const unsigned char *b, uint32_t l)
{
    if (l > 0)
    {
        volatile unsigned char t = b[0];
        t ^= b[l - 1];
        (void) t;
    }
}
void psSha1Final(psSha1_t *c, unsigned char *o) { }

VF_MAIN
{
    const unsigned char *p = B;
    static psEccKey_t key;
    unsigned char kh[SHA1_HASH_SIZE];
    int32_t rc;

    vf_bytes(B, VF_SIZE);
    rc = getEcPubKey(NULL, &p, VF_SIZE, &key, kh);
    VF_ASSERT(g_bad_window == 0, "c09.ec_pubkey_point_inside_input");
    if (rc >= 0)
    {
        VF_REACH("parsed");
        VF_ASSERT(p >= B && p <= B + VF_SIZE, "c09.ec_pubkey_cursor_inside_input");
    }
    else
    {
        VF_REACH("refused");
    }
    VF_REACH("end");
}
