/* cert_glue.c - C09.c: the certificate parser's own glue (parse_single_cert,
 * crypto/keyformat/x509.c): outer SEQUENCEs, algorithm identifiers, the
 * order and windows of the field parsers, the optional-field peek, the TBS
 * hash range - on an arbitrary buffer that is an object of exactly VF_SIZE
 * bytes.  Every field parser (version, serial, names, validity, public key,
 * unique ids, extensions, signature) is a checking contract stub: it asserts
 * that the window it is given lies inside the input and consumes an arbitrary
 * part of it (their own bodies are decided by x509_prims, dn_attrs,
 * rsa_pubkey, ec_pubkey, gn_parse).  Digests read both ends of their input.
 */
#include "vf.h"
#define VF_HEAP_SLOT 64
#include "heap_model.h"
#include "crypto/cryptoImpl.h"
#include "crypto/keyformat/x509.c"
#include "trace_stubs.h"

#ifndef VF_SIZE
# define VF_SIZE 40
#endif
static unsigned char B[VF_SIZE];
static int g_bad_window;
static psX509Cert_t CERT;

static int32_t sub(const unsigned char **pp, uint32_t len)
{
    uint32_t k = vf_u8();
    if (*pp < B || *pp > B + VF_SIZE || len > (uint32_t) (B + VF_SIZE - *pp))
    {
        g_bad_window++;
        return PS_PARSE_FAIL;
    }
    if (vf_bool())
    {
        return PS_PARSE_FAIL;
    }
    VF_ASSUME(k <= len);
    *pp += k;
    return PS_SUCCESS;
}
static int32_t getExplicitVersion(const unsigned char **pp, psSize_t len, int32_t expVal, int32_t *val)
{
    *val = vf_u8() % 4;
    return sub(pp, len);
}
int32_t getSerialNum(psPool_t *pool, const unsigned char **pp, psSize_t len, unsigned char **sn, psSize_t *snLen)
{
    return sub(pp, len);
}
int32_t psX509GetDNAttributes(psPool_t *pool, const unsigned char **pp, psSize_t len, x509DNattributes_t *attribs, uint32_t flags)
{
    return sub(pp, len);
}
static int32_t getTimeValidity(psPool_t *pool, const unsigned char **pp, psSize_t len, int32_t *t1, int32_t *t2, char **nb, char **na)
{
    return sub(pp, len);
}
int32 validateDateRange(psX509Cert_t *cert)
{
    return vf_bool() ? 0 : -1;
}
static int32_t getImplicitBitString(psPool_t *pool, const unsigned char **pp, psSize_t len, int32_t impVal, unsigned char **bitString, psSize_t *bitLen)
{
    return sub(pp, len);
}
int32_t getExplicitExtensions(psPool_t *pool, const unsigned char **pp, psSize_t inlen, int32_t expVal, x509v3extensions_t *extensions, uint8_t known)
{
    return sub(pp, inlen);
}
int32_t psX509GetSignature(psPool_t *pool, const unsigned char **pp, psSize_t len, unsigned char **sig, psSize_t *sigLen)
{
    return sub(pp, len);
}
int32_t getEcPubKey(psPool_t *pool, const unsigned char **pp, psSize_t len, psEccKey_t *pubKey, unsigned char *kh)
{
    return sub(pp, len);
}
static int g_spki;
int32_t psRsaParseAsnPubKey(psPool_t *pool, const unsigned char **pp, psSize_t len, psRsaKey_t *key, unsigned char *kh)
{
    g_spki++;
    return sub(pp, len);
}
int32_t psEd25519ParsePubKey(psPool_t *pool, const unsigned char **pp, psSize_t len, psCurve25519Key_t *key, unsigned char *kh)
{
    return sub(pp, len);
}
int32_t psInitPubKey(psPool_t *pool, psPubKey_t *key, uint8_t type)
{
    return 0;
}
void psClearPubKey(psPubKey_t *key)
{
}
uint8_t psEccSize(const psEccKey_t *k)
{
    return vf_u8();
}
psSize_t psRsaSize(const psRsaKey_t *k)
{
    return vf_u16();
}
psBool_t psVerifyNeedPreHash(int32_t alg)
{
    return vf_bool();
}
static void rd(const unsigned char *b, uint32_t l)
{
    if (b < B || b > B + VF_SIZE || l > (uint32_t) (B + VF_SIZE - b))
    {
        g_bad_window++;
    }
}
#define DIGEST(T, N) int32_t N##Init(T *c) { return 0; } void N##Update(T *c, const unsigned char *b, uint32_t l) { rd(b, l); } void N##Final(T *c, unsigned char *o) { }
DIGEST(psSha1_t, psSha1)
DIGEST(psSha256_t, psSha256)
DIGEST(psSha384_t, psSha384)
DIGEST(psSha512_t, psSha512)
DIGEST(psMd5_t, psMd5)
int32_t psSha224Init(psSha256_t *c) { return 0; }
void psSha224Update(psSha256_t *c, const unsigned char *b, uint32_t l) { rd(b, l); }
void psSha224Final(psSha256_t *c, unsigned char *o) { }

VF_MAIN
{
    const unsigned char *p = B;
    int rc;

    vf_bytes(B, VF_SIZE);
    memset(&CERT, 0, sizeof(CERT));
    rc = parse_single_cert(NULL, &p, VF_SIZE, B + VF_SIZE, &CERT, vf_bool() ? CERT_STORE_UNPARSED_BUFFER : 0);
    VF_ASSERT(g_bad_window == 0, "c09.cert_field_parsers_and_digests_get_windows_inside_input");
    if (rc >= 0)
    {
        VF_ASSERT(p >= B && p <= B + VF_SIZE, "c09.cert_cursor_inside_input");
    }
    else
    {
        VF_REACH("refused");
    }
    if (g_spki > 0)
    {
        /* 40 bytes reach the subjectPublicKey and the optional-field peek
           behind it; a complete certificate needs more than the bound */
        VF_REACH("public_key_reached");
    }
#ifdef VF_CBMC
    VF_ASSERT(VF_HEAP_OK(), "c09.cert_copies_inside_input_and_allocation");
#endif
    VF_REACH("end");
}
