/* crl_parse.c - C09: the CRL parser (psX509ParseCRL, psX509GetCRLVersion;
 * crypto/keyformat/crl.c) with the real asn1.c on an arbitrary buffer of
 * exactly VF_SIZE bytes.  The sub-parsers of x509.c it calls (DN attributes,
 * serial number, extensions, signature) are contract stubs that consume an
 * arbitrary part of the window they are given and check that the window lies
 * inside the input; the TBS hash stub checks its range.  Freeing the partial
 * CRL object is a no-op stub (psX509FreeCRL: C19).
 */
#include "vf.h"
#include "crypto/cryptoImpl.h"
#include "crypto/keyformat/crl.c"
#include "trace_stubs.h"

#ifndef VF_SIZE
# define VF_SIZE 40
#endif
static unsigned char B[VF_SIZE];
static int g_bad_window;

static int32_t sub(const unsigned char **pp, psSize_t len)
{
    psSize_t k = vf_u8();
    if (*pp < B || *pp > B + VF_SIZE || len > (psSize_t) (B + VF_SIZE - *pp))
    {
        g_bad_window++;
        return PS_PARSE_FAIL;
    }
    if (vf_bool())
    {
        return PS_PARSE_FAIL;
    }
    VF_ASSUME(k <= len);
    *pp += k;
    return PS_SUCCESS;
}
int32_t psX509GetDNAttributes(psPool_t *pool, const unsigned char **pp, psSize_t len, x509DNattributes_t *attribs, uint32_t flags)
{
    return sub(pp, len);
}
int32_t getSerialNum(psPool_t *pool, const unsigned char **pp, psSize_t len, unsigned char **sn, psSize_t *snLen)
{
    *sn = NULL;
    *snLen = 0;
    return sub(pp, len);
}
int32_t getExplicitExtensions(psPool_t *pool, const unsigned char **pp, psSize_t inlen, int32_t expVal, x509v3extensions_t *extensions, uint8_t known)
{
    return sub(pp, inlen);
}
int32_t psX509GetSignature(psPool_t *pool, const unsigned char **pp, psSize_t len, unsigned char **sig, psSize_t *sigLen)
{
    *sig = NULL;
    *sigLen = 0;
    return sub(pp, len);
}
int32_t psComputeHashForSig(const unsigned char *dataBegin, psSizeL_t dataLen, int32_t signatureAlgorithm, unsigned char *hashOut, psSize_t *hashOutLen)
{
    if (dataBegin < B || dataBegin > B + VF_SIZE || dataLen > (psSizeL_t) (B + VF_SIZE - dataBegin))
    {
        g_bad_window++;
    }
    *hashOutLen = 0;
    return vf_bool() ? PS_SUCCESS : PS_FAILURE;
}
int32 psBrokenDownTimeImport(psBrokenDownTime_t *t, const char *string, size_t time_string_len, unsigned int opts)
{
    return vf_bool() ? PS_SUCCESS : PS_FAILURE;
}
void psX509FreeDNStruct(x509DNattributes_t *dn, psPool_t *allocPool)
{
}
void x509FreeExtensions(x509v3extensions_t *extensions)
{
}

VF_MAIN
{
    psX509Crl_t *crl = NULL;
    int32 rc, v;

    vf_bytes(B, VF_SIZE);
    v = psX509GetCRLVersion(B, VF_SIZE);
    (void) v;
    rc = psX509ParseCRL(NULL, &crl, B, VF_SIZE);
    VF_ASSERT(g_bad_window == 0, "c09.crl_sub_parsers_get_windows_inside_input");
    if (rc == PS_SUCCESS)
    {
        VF_REACH("parsed");
        VF_ASSERT(crl != NULL, "c09.crl_success_returns_object");
    }
    else
    {
        VF_REACH("refused");
        VF_ASSERT(rc < 0, "c09.crl_failure_is_negative");
    }
    VF_REACH("end");
}
void psX509FreeCRL(psX509Crl_t *crl)
{
}
