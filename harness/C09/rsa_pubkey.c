/* rsa_pubkey.c - C09.c: the subjectPublicKey parser for RSA keys
 * (psRsaParseAsnPubKey, crypto/pubkey/rsa_parse_mem.c) on an arbitrary buffer
 * that is an object of exactly VF_SIZE bytes (len = VF_SIZE).
 * pstm_read_asn is a checking contract stub (window inside the buffer, consumes
 * an arbitrary INTEGER or fails); SHA-1 reads both ends of its input.
 */
#include "vf.h"
#include "crypto/cryptoImpl.h"
#include "crypto/pubkey/rsa_parse_mem.c"
#include "trace_stubs.h"

#ifndef VF_SIZE
# define VF_SIZE 12
#endif
static unsigned char B[VF_SIZE];
static int g_bad_window;

int32_t pstm_read_asn(psPool_t *pool, const unsigned char **pp, psSize_t len, pstm_int *a)
{
    psSize_t k = vf_u8();
    if (*pp < B || *pp > B + VF_SIZE || (psSize_t) (B + VF_SIZE - *pp) < len)
    {
        g_bad_window++;
        return PS_PARSE_FAIL;
    }
    if (vf_bool())
    {
        return PS_PARSE_FAIL;
    }
    VF_ASSUME(k >= 2 && k <= len);
    *pp += k;
    return PS_SUCCESS;
}
uint16_t pstm_unsigned_bin_size(const pstm_int *a)
{
    return vf_u16();
}
int32_t psSha1Init(psSha1_t *c) { return 0; }
void psSha1Update(psSha1_t *c, const unsigned char *b, uint32_t l)
{
    if (l > 0)
    {
        volatile unsigned char t = b[0];
        t ^= b[l - 1];
        (void) t;
    }
}
void psSha1Final(psSha1_t *c, unsigned char *o) { }

VF_MAIN
{
    const unsigned char *p = B;
    static psRsaKey_t key;
    unsigned char kh[SHA1_HASH_SIZE];
    int32_t rc;

    vf_bytes(B, VF_SIZE);
    rc = psRsaParseAsnPubKey(NULL, &p, VF_SIZE, &key, kh);
    VF_ASSERT(g_bad_window == 0, "c09.rsa_pubkey_integers_inside_input");
    if (rc >= 0)
    {
        VF_REACH("parsed");
        VF_ASSERT(p >= B && p <= B + VF_SIZE, "c09.rsa_pubkey_cursor_inside_input");
    }
    else
    {
        VF_REACH("refused");
    }
    VF_REACH("end");
}
