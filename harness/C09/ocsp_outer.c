/* ocsp_outer.c - C09: the outer OCSPResponse parser (psOcspParseResponse,
 * crypto/keyformat/x509.c) on an arbitrary buffer of exactly VF_SIZE bytes;
 * the BasicOCSPResponse parser is a stub here (decided by ocsp_basic).
 */
#include "vf.h"
#include "crypto/cryptoImpl.h"
static int32_t ocspParseBasicResponse(psPool_t *pool, uint32_t len, const unsigned char **cp, unsigned char *end, struct psOcspResponse *res);
#include "crypto/keyformat/x509.c"
#include "trace_stubs.h"

#ifndef VF_SIZE
# define VF_SIZE 28
#endif
static unsigned char B[VF_SIZE];
static psOcspResponse_t R;
static int g_basic, g_basic_bad;

static int32_t ocspParseBasicResponse(psPool_t *pool, uint32_t len, const unsigned char **cp, unsigned char *end, psOcspResponse_t *res)
{
    g_basic++;
    /* the inner parser is handed a window inside the input */
    if (*cp < B || *cp > B + VF_SIZE || end != B + VF_SIZE || len > (uint32_t) (end - *cp))
    {
        g_basic_bad++;
        return PS_PARSE_FAIL;
    }
    if (vf_bool())
    {
        return PS_PARSE_FAIL;
    }
    *cp += len;
    return PS_SUCCESS;
}
int32 psBrokenDownTimeImport(psBrokenDownTime_t *t, const char *string, size_t time_string_len, unsigned int opts)
{
    return 0;
}

VF_MAIN
{
    unsigned char *p = B;
    int32_t rc;

    vf_bytes(B, VF_SIZE);
    memset(&R, 0, sizeof(R));
    rc = psOcspParseResponse(NULL, VF_SIZE, &p, B + VF_SIZE, &R);
    VF_ASSERT(g_basic_bad == 0, "c09.ocsp_outer_hands_inner_parser_a_window_inside_input");
    if (rc == PS_SUCCESS)
    {
        VF_REACH("parsed");
        VF_ASSERT(p >= B && p <= B + VF_SIZE, "c09.ocsp_outer_cursor_inside_input");
    }
    else
    {
        VF_REACH("refused");
    }
    VF_REACH("end");
}
