/* ocsp_basic.c - C09: the BasicOCSPResponse parser stays inside its input and
 * inside its result structure.
 * Unit: the real ocspParseBasicResponse (crypto/keyformat/x509.c) with the
 * real asn1.c on an arbitrary buffer of exactly VF_SIZE bytes.
 * parseSingleResponse is a checking contract stub: it asserts that the slot it
 * is given is one of the MAX_OCSP_RESPONSES elements of the result array, then
 * consumes 1..remaining bytes or fails.  Digests, the time import, the nonce
 * extension and the embedded certificate parser are stubs.
 * Post-conditions on success: every pointer/length pair stored in the result
 * (signature, producedAt, responder id) lies inside the input buffer.
 */
#include "vf.h"
#include "crypto/cryptoImpl.h"
static int32_t parseSingleResponse(uint32_t len, const unsigned char **cp, const unsigned char *end, struct psOcspSingleResponse *res);
#include "crypto/keyformat/x509.c"
#include "trace_stubs.h"

#ifndef VF_SIZE
# define VF_SIZE 40
#endif
static unsigned char B[VF_SIZE];
static psOcspResponse_t R;
static int g_slot_bad, g_single;

static int32_t parseSingleResponse(uint32_t len, const unsigned char **cp, const unsigned char *end, psOcspSingleResponse_t *res)
{
    uint32_t k = vf_u8();
    g_single++;
    if (res != &R.singleResponse[0] && res != &R.singleResponse[1] && res != &R.singleResponse[2])
    {
        g_slot_bad++;
        return PS_PARSE_FAIL; /* do not let the real writes happen */
    }
    if (vf_bool())
    {
        return PS_PARSE_FAIL;
    }
    VF_ASSUME(k >= 1 && k <= (uint32_t) (end - *cp));
    *cp += k;
    return PS_SUCCESS;
}
/* the embedded responder certificate is parsed by psX509ParseCert (C09.c); here it refuses */
int32 psX509ParseCert(psPool_t *pool, const unsigned char *pp, uint32 size, psX509Cert_t **outcert, int32 flags)
{
    return PS_PARSE_FAIL;
}
void psX509FreeCert(psX509Cert_t *cert)
{
}
int32 psBrokenDownTimeImport(psBrokenDownTime_t *t, const char *string, size_t time_string_len, unsigned int opts)
{
    return vf_bool() ? 0 : -1;
}
#define DIG(T, N) void N##PreInit(T *c) { } int32_t N##Init(T *c) { return 0; } void N##Update(T *c, const unsigned char *b, uint32_t l) { } void N##Final(T *c, unsigned char *o) { }
int32_t psSha1Init(psSha1_t *c) { return 0; }
void psSha1Update(psSha1_t *c, const unsigned char *b, uint32_t l) { }
void psSha1Final(psSha1_t *c, unsigned char *o) { }
int32_t psSha256Init(psSha256_t *c) { return 0; }
void psSha256Update(psSha256_t *c, const unsigned char *b, uint32_t l) { }
void psSha256Final(psSha256_t *c, unsigned char *o) { }
int32_t psSha384Init(psSha384_t *c) { return 0; }
void psSha384Update(psSha384_t *c, const unsigned char *b, uint32_t l) { }
void psSha384Final(psSha384_t *c, unsigned char *o) { }
int32_t psSha512Init(psSha512_t *c) { return 0; }
void psSha512Update(psSha512_t *c, const unsigned char *b, uint32_t l) { }
void psSha512Final(psSha512_t *c, unsigned char *o) { }

static int inside(const unsigned char *p, uint32_t n)
{
    return p >= B && p <= B + VF_SIZE && n <= (uint32_t) (B + VF_SIZE - p);
}

VF_MAIN
{
    const unsigned char *p = B;
    int32_t rc;

    vf_bytes(B, VF_SIZE);
    memset(&R, 0, sizeof(R));

    rc = ocspParseBasicResponse(NULL, VF_SIZE, &p, B + VF_SIZE, &R);

    VF_ASSERT(g_slot_bad == 0, "c09.ocsp_single_responses_stay_inside_result_array");
    if (rc >= 0)
    {
        VF_REACH("parsed");
        VF_ASSERT(inside(R.sig, R.sigLen), "c09.ocsp_signature_inside_input");
        VF_ASSERT(inside(R.timeProduced, R.timeProducedLen), "c09.ocsp_produced_at_inside_input");
        VF_ASSERT(R.responderKeyHash == NULL || inside(R.responderKeyHash, SHA1_HASH_SIZE), "c09.ocsp_key_hash_inside_input");
        VF_ASSERT(R.responderName == NULL || inside(R.responderName, 1), "c09.ocsp_responder_name_inside_input");
        VF_ASSERT(p >= B && p <= B + VF_SIZE, "c09.ocsp_cursor_inside_input");
    }
    if (g_single >= 3)
    {
        VF_REACH("three_single_responses");
    }
    VF_REACH("end");
}
