# C09 - Credential and PKI parsers are memory-safe and total on arbitrary bytes
M = COMMON["MEMCHECKS"]
HARNESSES = [
    dict(name="asn1_prims", src="asn1_prims.c", checks=M,
         functions=["getAsnLength", "getAsnLength32", "getAsnSequence", "getAsnSequence32", "getAsnSet", "getAsnSet32", "getAsnInteger",
                    "getAsnEnumerated", "getAsnOID", "getAsnAlgorithmIdentifier", "asnParseOid", "asnCopyOid", "asnOidLenBytes", "getAsnTagLenUnsafe"],
         sources=["crypto/keyformat/asn1.c"],
         assumptions=["asn1_prims: buffer is an object of exactly the claimed size (every size 0..N enumerated), contents arbitrary"],
         unwind=30, unwindset={"checkAsnOidDatabase:/while \\(1\\)/": 8, "memcmp.0": 26},
         cases=[dict(name="size%d" % n, tier=("quick" if n <= 10 else "thorough"), defs={"VF_SIZE": n}) for n in range(0, 25)]),
]
HARNESSES.append(
    dict(name="gn_parse", src="gn_parse.c", checks=M, units=["crypto/keyformat/asn1.c"],
         functions=["parseGeneralNames", "getAsnLength", "getAsnLength32"],
         sources=["crypto/keyformat/x509.c", "crypto/keyformat/asn1.c"],
         assumptions=["gn_parse: DER buffer is an object of exactly VF_SIZE bytes, contents and claimed length arbitrary; allocation never fails here (allocation failure is C19)"],
         cases=[dict(name="size%d" % n, tier=("quick" if n in (6, 9) else "thorough"), defs={"VF_SIZE": n},
                     unwindset={"parseGeneralNames:/while \\(len >= MIN_GENERALNAME_LEN\\)/": n // 3 + 2,
                                "parseGeneralNames:/while \\(activeName != NULL\\)/": n // 3 + 2,
                                "parseGeneralNames:/for \\(c = p; c < save/": n + 1,
                                "strncpy.0": 20, "vf_harness:/for \\(/": n + 2})
                for n in (6, 7, 8, 9, 10, 12)]))
PROPERTY = dict(level='model_checking',
    claim='All DER primitives of asn1.c and parseGeneralNames are memory-safe on every buffer of every size up to the bound and leave cursor/lengths inside the buffer; stored GeneralNames are NUL-terminated, text entries printable.',
    bounds='asn1 primitives: every buffer size 0..10 (thorough 24); GeneralNames: 6- and 9-byte DER (thorough up to 12)',
    outside='the other X.509/CRL/OCSP/PKCS#8/PKCS#12/PEM/key parsers are not yet encoded',
    explanation='All DER primitives of asn1.c and parseGeneralNames are memory-safe on every buffer of every size up to the bound and leave cursor/lengths inside the buffer; stored GeneralNames are NUL-terminated, text entries printable.',
    assumptions=[])
