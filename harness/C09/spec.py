# C09 - Credential and PKI parsers are memory-safe and total on arbitrary bytes
M = COMMON["MEMCHECKS"]
HARNESSES = [
    dict(name="asn1_prims", src="asn1_prims.c", checks=M,
         functions=["getAsnLength", "getAsnLength32", "getAsnSequence", "getAsnSequence32", "getAsnSet", "getAsnSet32", "getAsnInteger",
                    "getAsnEnumerated", "getAsnOID", "getAsnAlgorithmIdentifier", "asnParseOid", "asnCopyOid", "asnOidLenBytes", "getAsnTagLenUnsafe"],
         sources=["crypto/keyformat/asn1.c"],
         assumptions=["asn1_prims: buffer is an object of exactly the claimed size (every size 0..N enumerated), contents arbitrary"],
         unwind=30, unwindset={"checkAsnOidDatabase:/while \\(1\\)/": 8, "memcmp.0": 26},
         cases=[dict(name="size%d" % n, tier=("quick" if n <= 10 else "thorough"), defs={"VF_SIZE": n}) for n in range(0, 25)]),
]
HARNESSES.append(
    dict(name="gn_parse", src="gn_parse.c", checks=M, units=["crypto/keyformat/asn1.c"],
         functions=["parseGeneralNames", "getAsnLength", "getAsnLength32"],
         sources=["crypto/keyformat/x509.c", "crypto/keyformat/asn1.c"],
         assumptions=["gn_parse: DER buffer is an object of exactly VF_SIZE bytes, contents and claimed length arbitrary; allocation never fails here (allocation failure is C19)"],
         cases=[dict(name="size%d" % n, tier=("quick" if n in (6, 9) else "thorough"), defs={"VF_SIZE": n},
                     unwindset={"parseGeneralNames:/while \\(len >= MIN_GENERALNAME_LEN\\)/": n // 3 + 2,
                                "parseGeneralNames:/while \\(activeName != NULL\\)/": n // 3 + 2,
                                "parseGeneralNames:/for \\(c = p; c < save/": n + 1,
                                "strncpy.0": 20, "vf_harness:/for \\(/": n + 2})
                for n in (6, 7, 8, 9, 10, 12)]))
PROPERTY = dict(level='model_checking',
    claim='All DER primitives of asn1.c and parseGeneralNames are memory-safe on every buffer of every size up to the bound and leave cursor/lengths inside the buffer; stored GeneralNames are NUL-terminated, text entries printable. ocspParseBasicResponse stays inside an arbitrary 40-byte input, its result array and stores only pointer/length pairs inside the input; the DH parameter parser returns the exact privateValueLength (0..40) and its counting loop is bounded. parseSingleResponse, psOcspParseResponse, psX509ParseCRL, the certificate field parsers (signature, serial, version, validity, unique ids), psX509GetDNAttributes, the RSASSA-PSS parameter parser, the RSA / EC subjectPublicKey parsers and (thorough) the glue of parse_single_cert stay inside exact-size inputs of 10..40 bytes, with the next parser level as window-checking stubs.',
    bounds='asn1 primitives: every buffer size 0..10 (thorough 24); GeneralNames: 6- and 9-byte DER (thorough up to 12)',
    outside='getExplicitExtensions (no verdict in 30 min), a complete certificate through psX509ParseCert (needs > 40 symbolic bytes), private-key / PKCS#8 / PKCS#12 / PEM parsers, OCSP request encoding; inputs longer than the stated sizes',
    explanation='All DER primitives of asn1.c and parseGeneralNames are memory-safe on every buffer of every size up to the bound and leave cursor/lengths inside the buffer; stored GeneralNames are NUL-terminated, text entries printable.',
    assumptions=[])

HARNESSES.append(
    dict(name="ocsp_basic", src="ocsp_basic.c", checks=M, units=["crypto/keyformat/asn1.c", "core/src/psbuf.c"],
         renames={"crypto/keyformat/x509.c": ["parseSingleResponse", "psX509ParseCert", "psX509FreeCert"]},
         functions=["ocspParseBasicResponse", "getAsnSequence", "getAsnLength", "getAsnLength32", "getExplicitVersion", "getAsnAlgorithmIdentifier", "parse_nonce_ext"],
         sources=["crypto/keyformat/x509.c", "crypto/keyformat/asn1.c"],
         assumptions=["ocsp_basic: input is an object of exactly VF_SIZE bytes, contents arbitrary; parseSingleResponse is a checking stub (slot inside the result array; consumes 1..remaining bytes or fails); digests, psBrokenDownTimeImport and the embedded certificate parser are stubs"],
         cbmc_flags=["--object-bits", "10"],
         unwind=12, unwindset={"ocspParseBasicResponse:/while \\(p < seqend\\)/": 6, "vf_bytes:/./": 60, "checkAsnOidDatabase:/while \\(1\\)/": 8, "memcmp.0": 26, "getAsnOID:/./": 60},
         cases=[dict(name="size%d" % n, tier=t, defs={"VF_SIZE": n}) for n, t in ((40, "quick"), (56, "thorough"))]))

HARNESSES.append(
    dict(name="dh_params", src="dh_params.c", checks=M, units=["crypto/keyformat/asn1.c", "crypto/math/pstm.c"],
         renames={"crypto/math/pstm.c": ["pstm_read_asn", "pstm_unsigned_bin_size", "pstm_init_size", "pstm_clear"]},
         functions=["psPkcs3ParseDhParamBin", "pstm_cmp_d", "getAsnSequence"], sources=["crypto/pubkey/dh_params.c", "crypto/math/pstm.c"],
         termination_loops=["psPkcs3ParseDhParamBin"], native_timeout_s=20,
         assumptions=["dh_params: pstm_read_asn is a contract stub yielding arbitrary integers (privateValueLength: any value of <= 2 digits, in the range 0..40; values that need the full 16 384 iterations of the counting loop gave no verdict in 90 min and are not claimed); pstm_unsigned_bin_size / pstm_init_size / pstm_clear are stubs"],
         unwind=8,
         cases=[dict(name="small", defs={"VF_RANGE": 0}, unwindset={"psPkcs3ParseDhParamBin:/while\\(pstm_cmp_d/": 45})]))

HARNESSES.append(
    dict(name="ocsp_single", src="ocsp_single.c", checks=M, units=["crypto/keyformat/asn1.c", "core/src/psbuf.c"],
         functions=["parseSingleResponse", "parseSingleResponseRevocationTimeAndReason", "getAsnSequence", "getAsnLength", "getAsnAlgorithmIdentifier"],
         sources=["crypto/keyformat/x509.c", "crypto/keyformat/asn1.c"],
         assumptions=["ocsp_single: input is an object of exactly VF_SIZE bytes, contents arbitrary; psBrokenDownTimeImport is a stub"],
         undefined_ok="*", cbmc_flags=["--object-bits", "10"],
         unwind=12, unwindset={"vf_bytes:/./": 60, "checkAsnOidDatabase:/while \\(1\\)/": 8, "memcmp.0": 26, "getAsnOID:/./": 60},
         cases=[dict(name="size%d" % n, tier=t, defs={"VF_SIZE": n}) for n, t in ((40, "quick"),)]))

HARNESSES.append(
    dict(name="ocsp_outer", src="ocsp_outer.c", checks=M, units=["crypto/keyformat/asn1.c", "core/src/psbuf.c"],
         renames={"crypto/keyformat/x509.c": ["ocspParseBasicResponse"]},
         functions=["psOcspParseResponse", "getAsnSequence", "getAsnEnumerated", "getAsnOID", "getAsnLength32"],
         sources=["crypto/keyformat/x509.c", "crypto/keyformat/asn1.c"],
         assumptions=["ocsp_outer: input is an object of exactly 28 bytes, contents arbitrary; ocspParseBasicResponse is a checking stub (window inside the input)"],
         undefined_ok="*", cbmc_flags=["--object-bits", "10"],
         unwind=12, unwindset={"vf_bytes:/./": 60, "checkAsnOidDatabase:/while \\(1\\)/": 8, "memcmp.0": 26, "getAsnOID:/./": 60},
         cases=[dict(name="size28", defs={"VF_SIZE": 28})]))

HARNESSES.append(
    dict(name="crl_parse", src="crl_parse.c", checks=M, units=["crypto/keyformat/asn1.c"],
         renames={"crypto/keyformat/crl.c": ["psX509FreeCRL"]},
         functions=["psX509ParseCRL", "psX509GetCRLVersion", "getAsnSequence32", "getAsnInteger", "getAsnAlgorithmIdentifier", "getAsnLength"],
         sources=["crypto/keyformat/crl.c", "crypto/keyformat/asn1.c"],
         assumptions=["crl_parse: input is an object of exactly 40 bytes, contents arbitrary; psX509GetDNAttributes / getSerialNum / getExplicitExtensions / psX509GetSignature are checking stubs (window inside the input, consume an arbitrary part); psComputeHashForSig checks its range; allocation succeeds"],
         undefined_ok="*", cbmc_flags=["--object-bits", "10"],
         unwind=12, unwindset={"vf_bytes:/./": 60, "checkAsnOidDatabase:/while \\(1\\)/": 8, "memcmp.0": 26, "getAsnOID:/./": 60, "psX509ParseCRL:/while \\(glen > 0\\)/": 12},
         cases=[dict(name="size40", defs={"VF_SIZE": 40})]))

HARNESSES.append(
    dict(name="x509_prims", src="x509_prims.c", checks=M, units=["crypto/keyformat/asn1.c", "core/src/psbuf.c"],
         functions=["psX509GetSignature", "getSerialNum", "getExplicitVersion", "getTimeValidity", "getImplicitBitString"],
         sources=["crypto/keyformat/x509.c", "crypto/keyformat/asn1.c"],
         assumptions=["x509_prims: input is an object of exactly VF_SIZE bytes (10, 24), contents arbitrary, len argument = VF_SIZE; heap = static-pool model (allocation succeeds, blocks <= 48 bytes)"],
         undefined_ok="*", cbmc_flags=["--object-bits", "10"],
         unwind=12, unwindset={"vf_bytes:/./": 60, "memmove:/for \\(i = 0/": 50, "malloc:/for \\(j = /": 9, "vf_heap_slot_of:/for \\(j = /": 9},
         cases=[dict(name="op%d_size%d" % (o, n), defs={"VF_OP": o, "VF_SIZE": n}) for o in range(5) for n in ((24,) if o in (0, 3) else (10,))]))

DN = dict(name="dn_attrs", src="dn_attrs.c", checks=M, units=["crypto/keyformat/asn1.c", "core/src/psbuf.c"],
         functions=["psX509GetDNAttributes", "getAsnSequence", "getAsnSet", "getAsnLength"],
         sources=["crypto/keyformat/x509.c", "crypto/keyformat/asn1.c"],
         assumptions=["dn_attrs: input is an object of exactly 20 bytes, contents arbitrary; SHA-1 is a stub that reads both ends of its input; heap = static-pool model (blocks <= 64 bytes)"],
         undefined_ok="*", cbmc_flags=["--object-bits", "10"],
         unwind=14, unwindset={"vf_bytes:/./": 60, "memmove:/for \\(i = 0/": 66, "malloc:/for \\(j = /": 9, "vf_heap_slot_of:/for \\(j = /": 9,
                               "psX509GetDNAttributes:/for \\(i = 0; i < DN_NUM/": 40, "memset.0": 70,
                               "psX509GetDNAttributes:/while \\(p < dnEnd\\)/": 4, "psX509GetDNAttributes:/goto MORE_IN_SET/": 3},
         cap_s=1800,
         cases=[dict(name="size20", defs={"VF_SIZE": 20})])
HARNESSES.append(DN)

# x509_ext (getExplicitExtensions on a 22-byte symbolic buffer, harness/C09/x509_ext.c): no verdict in 30 min - not registered

HARNESSES.append(
    dict(name="rsa_pubkey", src="rsa_pubkey.c", checks=M, units=["crypto/keyformat/asn1.c"],
         functions=["psRsaParseAsnPubKey", "getAsnLength", "getAsnSequence"], sources=["crypto/pubkey/rsa_parse_mem.c", "crypto/keyformat/asn1.c"],
         assumptions=["rsa_pubkey: input is an object of exactly 12 bytes, contents arbitrary; pstm_read_asn is a checking stub; SHA-1 reads both ends of its input"],
         undefined_ok="*", unwind=16, unwindset={"vf_bytes:/./": 60},
         cases=[dict(name="size12", defs={"VF_SIZE": 12})]))

HARNESSES.append(
    dict(name="ec_pubkey", src="ec_pubkey.c", checks=M, units=["crypto/keyformat/asn1.c"],
         functions=["getEcPubKey", "getAsnLength"], sources=["crypto/pubkey/ecc_parse_mem.c", "crypto/keyformat/asn1.c"],
         assumptions=["ec_pubkey: input is an object of exactly 12 bytes, contents arbitrary; curve lookup arbitrary; psEccX963ImportKey is a checking stub; SHA-1 reads both ends of its input"],
         undefined_ok="*", unwind=16, unwindset={"vf_bytes:/./": 60},
         cases=[dict(name="size12", defs={"VF_SIZE": 12})]))

HARNESSES.append(
    dict(name="cert_glue", src="cert_glue.c", checks=M, units=["crypto/keyformat/asn1.c"],
         renames={"crypto/keyformat/x509.c": ["getExplicitVersion", "getSerialNum", "psX509GetDNAttributes", "getTimeValidity", "validateDateRange",
                                             "getImplicitBitString", "getExplicitExtensions", "psX509GetSignature"]},
         functions=["parse_single_cert", "getAsnSequence32", "getAsnSequence", "getAsnAlgorithmIdentifier"],
         sources=["crypto/keyformat/x509.c", "crypto/keyformat/asn1.c"],
         assumptions=["cert_glue: input is an object of exactly 40 bytes, contents arbitrary; every field parser is a checking stub (window inside the input, consumes an arbitrary part); digests check their range; heap = static-pool model"],
         undefined_ok="*", cbmc_flags=["--object-bits", "10"],
         unwind=12, unwindset={"vf_bytes:/./": 60, "checkAsnOidDatabase:/while \\(1\\)/": 8, "memcmp.0": 26, "getAsnOID:/./": 60,
                               "memmove:/for \\(i = 0/": 66, "malloc:/for \\(j = /": 9, "vf_heap_slot_of:/for \\(j = /": 9},
         cap_s=3600,
         cases=[dict(name="size40", tier="thorough", defs={"VF_SIZE": 40})]))

HARNESSES.append(
    dict(name="pss_params", src="pss_params.c", checks=M, units=["crypto/keyformat/asn1.c"],
         functions=["getRsaPssParams", "getAsnLength", "getAsnAlgorithmIdentifier", "getAsnInteger"], sources=["crypto/keyformat/x509.c", "crypto/keyformat/asn1.c"],
         assumptions=["pss_params: input is an object of exactly 24 bytes, contents arbitrary; first and second pass"],
         undefined_ok="*", cbmc_flags=["--object-bits", "10"],
         unwind=12, unwindset={"vf_bytes:/./": 60, "checkAsnOidDatabase:/while \\(1\\)/": 8, "memcmp.0": 26, "getAsnOID:/./": 60},
         cases=[dict(name="size24", defs={"VF_SIZE": 24})]))
