/* x509_ext.c - C09.c: the certificate / CRL extensions parser
 * (getExplicitExtensions, crypto/keyformat/x509.c) with the real asn1.c on an
 * arbitrary buffer that is an object of exactly VF_SIZE bytes.
 * Decided: no access outside the buffer for any contents; cursor inside on
 * success.
 */
#include "vf.h"
#define VF_HEAP_SLOT 64
#include "heap_model.h"
#include "crypto/cryptoImpl.h"
#include "crypto/keyformat/x509.c"
#include "trace_stubs.h"

#ifndef VF_SIZE
# define VF_SIZE 22
#endif
static unsigned char B[VF_SIZE];
static x509v3extensions_t E;

VF_MAIN
{
    const unsigned char *p = B;
    int32_t rc;

    vf_bytes(B, VF_SIZE);
    memset(&E, 0, sizeof(E));
    rc = getExplicitExtensions(NULL, &p, VF_SIZE, 3, &E, 0);
    if (rc >= 0)
    {
        VF_REACH("parsed");
        VF_ASSERT(p >= B && p <= B + VF_SIZE, "c09.ext_cursor_inside_input");
    }
    else
    {
        VF_REACH("refused");
    }
#ifdef VF_CBMC
    VF_ASSERT(VF_HEAP_OK(), "c09.ext_copies_inside_input_and_allocation");
#endif
    VF_REACH("end");
}
