/* dh_params.c - C09: the PKCS#3 DHParameter parser returns in bounded time
 * with a faithful result for every encoded privateValueLength.
 * Unit: the real psPkcs3ParseDhParamBin (crypto/pubkey/dh_params.c) with the
 * real getAsnSequence and pstm_cmp_d.  pstm_read_asn is a contract stub that
 * yields arbitrary big integers (the DER INTEGER decoder itself is decided in
 * asn1_prims / C13); the third one - privateValueLength - is an arbitrary
 * value of up to two 64-bit digits.
 * Decided: the counting loop terminates within the 16384 steps its own guard
 * allows (termination bound derived from the code), success implies
 * x_bitlen == the encoded value <= 16384, larger values are refused.
 */
#include "vf.h"
#include "crypto/cryptoImpl.h"
#include "crypto/pubkey/dh_params.c"
#include "trace_stubs.h"

static unsigned char B[8];
static int g_reads;
static pstm_digit g_d[2];
static uint16_t g_used;

int32_t pstm_read_asn(psPool_t *pool, const unsigned char **pp, psSize_t len, pstm_int *a)
{
    g_reads++;
    if (vf_bool())
    {
        return PS_PARSE_FAIL;
    }
    a->dp = g_d;
    a->alloc = 2;
    a->sign = PSTM_ZPOS;
    a->pool = NULL;
    if (g_reads == 3)
    {
        /* privateValueLength: arbitrary non-negative value, clamped */
        a->used = g_used;
        /* the parser is left at the end of the input */
        *pp = B + sizeof(B);
    }
    else
    {
        a->used = 1;
        if (g_reads == 2 && vf_bool())
        {
            *pp = B + sizeof(B); /* no third member */
        }
    }
    return PS_SUCCESS;
}
uint16_t pstm_unsigned_bin_size(const pstm_int *a)
{
    return (uint16_t) (vf_bool() ? 256 : vf_u8());
}
int32_t pstm_init_size(psPool_t *pool, pstm_int *a, psSize_t size)
{
    a->dp = NULL;
    a->used = 0;
    a->alloc = 0;
    return vf_bool() ? PSTM_OKAY : PS_MEM_FAIL;
}
void pstm_clear(pstm_int *a)
{
}

VF_MAIN
{
    psDhParams_t params;
    int32_t rc;
    uint64_t v;

    memset(&params, 0, sizeof(params));
    B[0] = 0x30;
    B[1] = 0x06;
    g_d[0] = vf_u64();
    g_d[1] = vf_u64();
    g_used = vf_u8();
    VF_ASSUME(g_used <= 2);
    VF_ASSUME(g_used == 0 || g_d[g_used - 1] != 0);
    if (g_used == 0)
    {
        g_d[0] = 0;
    }
    v = g_d[0];
#if VF_RANGE == 0
    VF_ASSUME(g_used <= 1 && v <= 40);          /* small values: exact result */
#else
    VF_ASSUME(g_used == 2 || v >= 16300);       /* around and beyond the limit */
#endif

    rc = psPkcs3ParseDhParamBin(NULL, B, sizeof(B), &params);

    if (rc == PS_SUCCESS)
    {
        VF_REACH("parsed");
        if (g_reads == 3)
        {
            VF_REACH("with_private_value_length");
            VF_ASSERT(g_used <= 1 && params.x_bitlen == v && v <= 16384, "c09.dh_private_value_length_exact_and_bounded");
        }
        else
        {
            VF_ASSERT(params.x_bitlen == 0, "c09.dh_private_value_length_absent_is_zero");
        }
    }
    else
    {
        VF_REACH("refused");
        VF_ASSERT(rc < 0, "c09.dh_refusal_is_negative");
    }
    VF_REACH("end");
}
