/* asn1_prims.c - C09.a: every DER primitive of crypto/keyformat/asn1.c on an
 * arbitrary buffer of exactly VF_SIZE bytes (an array of exactly that size, so
 * any read past the claimed size is an out-of-bounds access for CBMC and for
 * ASan on replay).  Post-conditions on success: the cursor stays inside the
 * buffer and the announced content fits; 16-bit wrappers agree with the
 * 32-bit functions.
 */
#include "vf.h"
#include "crypto/keyformat/asn1.c"
#include "trace_stubs.h"

#ifndef VF_SIZE
# define VF_SIZE 8
#endif
#if VF_SIZE == 0
static unsigned char B[1];
# define BEND (B)
#else
static unsigned char B[VF_SIZE];
# define BEND (B + VF_SIZE)
#endif

#define INSIDE(p) ((p) >= (const unsigned char *) B && (p) <= (const unsigned char *) BEND)

VF_MAIN
{
    const unsigned char *p;
    psSize_t l16;
    psSize32_t l32;
    int32_t rc, val, oi;
    uint32_t oid[MAX_OID_LEN];
    psAsnOid_t oidb;
    uint8_t n;
    uint32_t indef = vf_bool();

#if VF_SIZE > 0
    vf_bytes(B, VF_SIZE);
#endif

    p = B; l32 = 0;
    rc = getAsnLength32(&p, VF_SIZE, &l32, indef);
    if (rc == PS_SUCCESS)
    {
#if VF_SIZE >= 1
        VF_REACH("length_ok");
#endif
        VF_ASSERT(INSIDE(p) && p > B, "c09.len32_cursor_inside");
        if (!indef)
        {
            VF_ASSERT((psSizeL_t) (BEND - p) >= l32, "c09.len32_content_fits");
        }
    }
    else
    {
        VF_ASSERT(rc == ASN_UNKNOWN_LEN || rc < 0, "c09.len32_error_code");
        VF_ASSERT(rc != ASN_UNKNOWN_LEN || (indef && l32 == VF_SIZE - 1 && INSIDE(p)), "c09.len32_indefinite");
    }
    p = B; l16 = 0;
    rc = getAsnLength(&p, VF_SIZE, &l16);
    if (rc == PS_SUCCESS)
    {
        const unsigned char *q = B;
        psSize32_t m = 0;
        VF_ASSERT(getAsnLength32(&q, VF_SIZE, &m, 0) == PS_SUCCESS && m == l16 && q == p, "c09.len16_agrees_with_len32");
        VF_ASSERT(INSIDE(p) && (psSizeL_t) (BEND - p) >= l16, "c09.len16_content_fits");
    }
    p = B; l32 = 0;
    rc = getAsnSequence32(&p, VF_SIZE, &l32, indef);
    if (rc == PS_SUCCESS)
    {
#if VF_SIZE >= 2
        VF_REACH("sequence_ok");
#endif
        VF_ASSERT(B[0] == (ASN_SEQUENCE | ASN_CONSTRUCTED), "c09.seq_tag");
        VF_ASSERT(INSIDE(p) && (indef || (psSizeL_t) (BEND - p) >= l32), "c09.seq_content_fits");
    }
    p = B; l16 = 0;
    rc = getAsnSequence(&p, VF_SIZE, &l16);
    if (rc == PS_SUCCESS)
    {
        VF_ASSERT(INSIDE(p) && (psSizeL_t) (BEND - p) >= l16, "c09.seq16_content_fits");
    }
    p = B; l32 = 0;
    rc = getAsnSet32(&p, VF_SIZE, &l32, indef);
    if (rc == PS_SUCCESS)
    {
        VF_ASSERT(B[0] == (ASN_SET | ASN_CONSTRUCTED), "c09.set_tag");
        VF_ASSERT(INSIDE(p) && (indef || (psSizeL_t) (BEND - p) >= l32), "c09.set_content_fits");
    }
    p = B; l16 = 0;
    rc = getAsnSet(&p, VF_SIZE, &l16);
    if (rc == PS_SUCCESS)
    {
        VF_ASSERT(INSIDE(p) && (psSizeL_t) (BEND - p) >= l16, "c09.set16_content_fits");
    }
    p = B; val = 0;
    rc = getAsnInteger(&p, VF_SIZE, &val);
    if (rc == PS_SUCCESS)
    {
#if VF_SIZE >= 3
        VF_REACH("integer_ok");
#endif
        VF_ASSERT(INSIDE(p) && B[0] == ASN_INTEGER && p >= B + 3, "c09.int_consumed");
        if (B[1] == 1)
        {
            VF_ASSERT(val == (int32_t) (signed char) B[2], "c09.int_value_1byte");
        }
    }
    p = B; val = 0;
    rc = getAsnEnumerated(&p, VF_SIZE, &val);
    if (rc == PS_SUCCESS)
    {
        VF_ASSERT(INSIDE(p) && B[0] == ASN_ENUMERATED, "c09.enum_cursor_inside");
    }
    p = B; oi = 0; l16 = 0;
    rc = getAsnOID(&p, VF_SIZE, &oi, (uint8_t) vf_bool(), &l16);
    if (rc == PS_SUCCESS)
    {
#if VF_SIZE >= 4
        VF_REACH("oid_ok");
#endif
        VF_ASSERT(INSIDE(p) && l16 <= VF_SIZE, "c09.oid_cursor_inside");
    }
    p = B; oi = 0; l16 = 0;
    rc = getAsnAlgorithmIdentifier(&p, VF_SIZE, &oi, &l16);
    if (rc == PS_SUCCESS)
    {
        VF_ASSERT(INSIDE(p) && l16 <= VF_SIZE, "c09.algid_cursor_inside");
    }
    n = asnParseOid(B, VF_SIZE, oid);
    VF_ASSERT(n < MAX_OID_LEN, "c09.parseoid_count");
    n = asnCopyOid(B, VF_SIZE, oidb);
    if (n > 0)
    {
        VF_ASSERT(oidb[0] == ASN_OID && oidb[1] == VF_SIZE && asnOidLenBytes(oidb) == VF_SIZE + 2u, "c09.copyoid_consistent");
    }
    if (VF_SIZE >= 6)
    {
        /* getAsnTagLenUnsafe: documented precondition is a valid encoding;
           it must still never read beyond tag+length bytes */
        uint32_t tl = getAsnTagLenUnsafe(B);
        VF_ASSERT(tl == 0 || tl >= 2, "c09.taglen_range");
    }
    VF_REACH("end");
}
