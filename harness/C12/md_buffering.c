/* md_buffering.c - C12.a: block buffering, padding and length encoding of the
 * Merkle-Damgard digests, decided modulo the compression function.
 *
 * Unit: the real ps<Hash>Update / ps<Hash>Final (crypto/digest/{sha256,sha1,
 * sha512,md5}.c).  Stub: the compression function (renamed to *__real by
 * derive.py): it logs the 64/128-byte block it is given and leaves the
 * chaining value alone.
 *
 * Inductive formulation over the context invariant
 *     buf[0..curlen) = the last curlen bytes of the stream so far,
 *     length        = 8 * (number of bytes already compressed)
 *  VF_STEP 1 (update): for the concrete (VF_CL = curlen, VF_NN = input
 *     length) and ALL buffer/input bytes and any length counter: the blocks
 *     handed to compress are the next floor((CL+N)/B) blocks of the stream,
 *     the residue and the counter are updated, the invariant is preserved.
 *     Every partition of every message into update calls is a sequence of
 *     such steps.
 *  VF_STEP 2 (final): for the concrete curlen and any counter: the block(s)
 *     compressed are the FIPS 180-4 padding (0x80, zeros, bit length of the
 *     whole message in 64/128 bits big endian - little endian for MD5) and
 *     the digest is the serialised chaining value.
 */
#include "vf.h"

#if VF_HASH == 256
# include "crypto/cryptoImpl.h"
static void sha256_compress(psSha256_t *c, const unsigned char *buf); /* see the SHA-512 branch */
# include "crypto/digest/sha256.c"
# define CTX psSha256_t
# define BLK 64
# define LENB 8
# define NSTATE 8
# define WORDB 4
# define BIGEND 1
# define UPDATE psSha256Update
# define FINAL psSha256Final
# define HASHLEN 32
# define COMPRESS_DEF static void sha256_compress(psSha256_t *c, const unsigned char *buf)
# define COMPRESS_BUF buf
#elif VF_HASH == 1
# include "crypto/cryptoImpl.h"
static void sha1_compress(psSha1_t *c); /* see the SHA-512 branch */
# include "crypto/digest/sha1.c"
# define CTX psSha1_t
# define BLK 64
# define LENB 8
# define NSTATE 5
# define WORDB 4
# define BIGEND 1
# define UPDATE psSha1Update
# define FINAL psSha1Final
# define HASHLEN 20
# define COMPRESS_DEF static void sha1_compress(psSha1_t *c)
# define COMPRESS_BUF c->buf
#elif VF_HASH == 512
/* forward declaration: the derived unit renames only the definition, and a
   native compiler rejects a static definition after an implicit declaration */
# include "crypto/cryptoImpl.h"
static void sha512_compress(psSha512_t *c, const unsigned char *buf);
# include "crypto/digest/sha512.c"
# define CTX psSha512_t
# define BLK 128
# define LENB 16
# define NSTATE 8
# define WORDB 8
# define BIGEND 1
# define UPDATE psSha512Update
# define FINAL psSha512Final
# define HASHLEN 64
# define COMPRESS_DEF static void sha512_compress(psSha512_t *c, const unsigned char *buf)
# define COMPRESS_BUF buf
#elif VF_HASH == 5
# include "crypto/digest/md5.c"
# define CTX psMd5_t
# define BLK 64
# define LENB 8
# define NSTATE 4
# define WORDB 4
# define BIGEND 0
# define UPDATE psMd5Update
# define FINAL psMd5Final
# define HASHLEN 16
# define COMPRESS_DEF static void md5_compress(psMd5_t *c)
# define COMPRESS_BUF c->buf
#endif
#include "trace_stubs.h"
/* stack wiping helper of core: no functional effect */
void psBurnStack(uint32 len)
{
    (void) len;
}

#ifndef VF_CL
# define VF_CL 0
#endif
#ifndef VF_NN
# define VF_NN 0
#endif

static unsigned char log0[BLK], log1[BLK], log2[BLK], log3[BLK];
static int g_blocks;
COMPRESS_DEF
{
    unsigned char *dst = (g_blocks == 0) ? log0 : (g_blocks == 1) ? log1 : (g_blocks == 2) ? log2 : log3;
    int i;
    for (i = 0; i < BLK; i++)
    {
        dst[i] = (COMPRESS_BUF)[i];
    }
    g_blocks++;
}

static CTX ctx;
#if VF_NN > 0
static unsigned char in[VF_NN];
#else
static unsigned char in[1];
#endif
static unsigned char stream[BLK + VF_NN + BLK];

static unsigned char logged(int blk, int i)
{
    return (blk == 0) ? log0[i] : (blk == 1) ? log1[i] : (blk == 2) ? log2[i] : log3[i];
}

VF_MAIN
{
    uint64_t length0;
    int i, b, nblocks, same = 1;

    memset(&ctx, 0, sizeof(ctx));
    for (i = 0; i < NSTATE; i++)
    {
        ctx.state[i] = (WORDB == 8) ? vf_u64() : vf_u32();
    }
    length0 = vf_u64();
    ctx.length = length0;
    ctx.curlen = VF_CL;
    for (i = 0; i < BLK; i++)
    {
        ctx.buf[i] = vf_u8();     /* bytes beyond curlen are stale garbage */
    }
    for (i = 0; i < VF_CL; i++)
    {
        stream[i] = ctx.buf[i];
    }

#if VF_STEP == 1
    for (i = 0; i < VF_NN; i++)
    {
        in[i] = vf_u8();
        stream[VF_CL + i] = in[i];
    }
    UPDATE(&ctx, in, VF_NN);
    nblocks = (VF_CL + VF_NN) / BLK;
    VF_ASSERT(g_blocks == nblocks, "c12.update_block_count");
    for (b = 0; b < nblocks && b < 4; b++)
    {
        for (i = 0; i < BLK; i++)
        {
            same &= (logged(b, i) == stream[b * BLK + i]);
        }
    }
    VF_ASSERT(same, "c12.update_blocks_are_stream_in_order");
    VF_ASSERT(ctx.curlen == (VF_CL + VF_NN) % BLK, "c12.update_residue_length");
    same = 1;
    for (i = 0; i < (VF_CL + VF_NN) % BLK; i++)
    {
        same &= (ctx.buf[i] == stream[nblocks * BLK + i]);
    }
    VF_ASSERT(same, "c12.update_residue_bytes");
    VF_ASSERT(ctx.length == length0 + (uint64_t) nblocks * BLK * 8, "c12.update_bit_counter");
#else
    {
        unsigned char digest[HASHLEN];
        uint64_t state0[NSTATE];
        uint64_t bits = length0 + (uint64_t) VF_CL * 8;
        int padblocks = (VF_CL + 1 > BLK - LENB) ? 2 : 1;
        int total = padblocks * BLK;
        for (i = 0; i < NSTATE; i++)
        {
            state0[i] = ctx.state[i];
        }
        FINAL(&ctx, digest);
        VF_ASSERT(g_blocks == padblocks, "c12.final_block_count");
        /* expected padded tail */
        stream[VF_CL] = 0x80;
        for (i = VF_CL + 1; i < total; i++)
        {
            stream[i] = 0;
        }
        for (i = 0; i < 8; i++)
        {
            if (BIGEND)
            {
                stream[total - 1 - i] = (unsigned char) (bits >> (8 * i));
            }
            else
            {
                stream[total - 8 + i] = (unsigned char) (bits >> (8 * i));
            }
        }
        for (b = 0; b < padblocks; b++)
        {
            for (i = 0; i < BLK; i++)
            {
                same &= (logged(b, i) == stream[b * BLK + i]);
            }
        }
        VF_ASSERT(same, "c12.final_padding_and_length");
        same = 1;
        for (i = 0; i < HASHLEN; i++)
        {
            uint64_t w = state0[i / WORDB];
            unsigned sh = BIGEND ? 8 * (WORDB - 1 - (i % WORDB)) : 8 * (i % WORDB);
            same &= (digest[i] == (unsigned char) (w >> sh));
        }
        VF_ASSERT(same, "c12.final_digest_is_serialised_state");
    }
#endif
    VF_REACH("end");
}
