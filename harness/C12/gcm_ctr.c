/* gcm_ctr.c - C12.f: the streaming (CTR + GHASH feeding) core of AES-GCM,
 * psAesEncryptGCMx / psAesEncryptGCM / psAesDecryptGCMtagless
 * (crypto/symmetric/aesGCM.c), decided modulo the AES block function and the
 * GHASH update (both logging stubs).
 *
 * Inductive step over the context invariant "CtrBlock holds the keystream
 * block E(K, ctr-1) of which the last OutputBufferCount bytes are unused":
 * for the concrete (VF_OBC = OutputBufferCount, VF_NN = length) and all bytes:
 *    out[i] = in[i] ^ keystream[i], where the keystream continues with the
 *    unused tail of CtrBlock and then E(K, ctr), E(K, ctr+1), ...;
 *    the counter advances by the number of new blocks; OutputBufferCount is
 *    updated; GHASH absorbs exactly the ciphertext, once, in order.
 * Any split of a message into update calls is a sequence of such steps, so
 * the result is independent of the split.  VF_INPLACE 1: out == in.
 */
#include "vf.h"
#include "crypto/symmetric/aesGCM.c"
#include "trace_stubs.h"

#ifndef VF_OBC
# define VF_OBC 0
#endif
#ifndef VF_NN
# define VF_NN 17
#endif
#ifndef VF_DIR
# define VF_DIR 1
#endif

/* AES block stub: block k of this call = arbitrary bytes; input counter logged */
static unsigned char ks0[16], ks1[16], ks2[16], ks3[16];
static unsigned char ci0[16], ci1[16], ci2[16], ci3[16];
static int g_aes;
void psAesEncryptBlock(psAesKey_t *key, const unsigned char *pt, unsigned char *ct)
{
    unsigned char *ks = (g_aes == 0) ? ks0 : (g_aes == 1) ? ks1 : (g_aes == 2) ? ks2 : ks3;
    unsigned char *ci = (g_aes == 0) ? ci0 : (g_aes == 1) ? ci1 : (g_aes == 2) ? ci2 : ci3;
    int i;
    for (i = 0; i < 16; i++)
    {
        ci[i] = pt[i];
        ks[i] = vf_u8();
        ct[i] = ks[i];
    }
    g_aes++;
}
static int g_gh_calls;
static const unsigned char *g_gh_data;
static uint32_t g_gh_len;
static int g_gh_type;
static unsigned char g_gh_copy[VF_NN + 1];
static void psGhashUpdate(psAesGcm_t *ctx, const unsigned char *data, uint32_t len, int dataType)
{
    uint32_t i;
    g_gh_calls++;
    g_gh_data = data;
    g_gh_len = len;
    g_gh_type = dataType;
    for (i = 0; i < len && i < VF_NN; i++)
    {
        g_gh_copy[i] = data[i];
    }
}

static psAesGcm_t G;
static unsigned char inb[VF_NN + 1], outb[VF_NN + 1], in0[VF_NN + 1];

static unsigned char ksbyte(int blk, int i)
{
    return (blk == 0) ? ks0[i] : (blk == 1) ? ks1[i] : (blk == 2) ? ks2[i] : ks3[i];
}

VF_MAIN
{
    unsigned char ctr0[16], old[16];
    unsigned char *dst;
    int i, newblocks, same = 1, k;

    memset(&G, 0, sizeof(G));
    vf_bytes(G.EncCtr, 16);
    vf_bytes(G.CtrBlock, 16);
    G.OutputBufferCount = VF_OBC;
    vf_bytes(inb, VF_NN);
    memcpy(in0, inb, VF_NN + 1);
    memcpy(ctr0, G.EncCtr, 16);
    memcpy(old, G.CtrBlock, 16);
    dst = VF_INPLACE ? inb : outb;

#if VF_DIR == 1
    psAesEncryptGCM(&G, inb, dst, VF_NN);
#else
    psAesDecryptGCMtagless(&G, inb, dst, VF_NN);
#endif
    newblocks = (VF_NN > VF_OBC) ? (VF_NN - VF_OBC + 15) / 16 : 0;
    VF_ASSERT(g_aes == newblocks, "c12.gcm_keystream_block_count");
    /* keystream */
    for (i = 0; i < VF_NN; i++)
    {
        unsigned char ks;
        if (i < VF_OBC)
        {
            ks = old[16 - VF_OBC + i];
        }
        else
        {
            ks = ksbyte((i - VF_OBC) / 16, (i - VF_OBC) % 16);
        }
        same &= (dst[i] == (unsigned char) (in0[i] ^ ks));
    }
    VF_ASSERT(same, "c12.gcm_ctr_xor_exact");
    VF_ASSERT(G.OutputBufferCount == ((VF_NN <= VF_OBC) ? VF_OBC - VF_NN : (16 - ((VF_NN - VF_OBC) % 16)) % 16),
        "c12.gcm_unused_keystream_count");
    /* counter blocks fed to AES: ctr0, ctr0+1, ... (big-endian increment) */
    same = 1;
    for (k = 0; k < newblocks && k < 4; k++)
    {
        unsigned char exp[16];
        const unsigned char *ci = (k == 0) ? ci0 : (k == 1) ? ci1 : (k == 2) ? ci2 : ci3;
        int j, carry = k;
        memcpy(exp, ctr0, 16);
        for (j = 15; j >= 0 && carry; j--)
        {
            int v = exp[j] + carry;
            exp[j] = (unsigned char) v;
            carry = v >> 8;
        }
        for (j = 0; j < 16; j++)
        {
            same &= (ci[j] == exp[j]);
        }
    }
    VF_ASSERT(same, "c12.gcm_counter_sequence");
    /* GHASH absorbs exactly the ciphertext, once */
    VF_ASSERT(g_gh_calls == 1 && g_gh_len == VF_NN && g_gh_type == GHASH_DATATYPE_CIPHERTEXT, "c12.gcm_ghash_once_over_ciphertext");
    same = 1;
    for (i = 0; i < VF_NN; i++)
    {
        same &= (g_gh_copy[i] == ((VF_DIR == 1) ? dst[i] : in0[i]));
    }
    VF_ASSERT(same, "c12.gcm_ghash_input_is_ciphertext");
    VF_REACH("end");
}
