/* hmac.c - C12.b: the real one-shot HMAC functions of crypto/digest/hmac.c
 * (psHmacMd5 / psHmacSha1 / psHmacSha256 / psHmacSha384, and through them the
 * Init/Update/Final triples) against RFC 2104, with the hash abstract:
 * the digest functions are stubs that log, per hashing session, the exact byte
 * string absorbed and return an arbitrary digest.
 *
 * RFC 2104:  K' = H(K) if |K| > B else K;   HMAC = H((K' ^ opad) || H((K' ^ ipad) || m))
 * VF_KL = key length, VF_ML = message length (concrete), bytes symbolic.
 */
#include "vf.h"
#include "crypto/digest/hmac.c"
#include "trace_stubs.h"

#if VF_HASH == 5
# define BLK 64
# define HL MD5_HASHLEN
# define HMAC1 psHmacMd5
#elif VF_HASH == 1
# define BLK 64
# define HL SHA1_HASHLEN
# define HMAC1 psHmacSha1
#elif VF_HASH == 256
# define BLK 64
# define HL SHA256_HASHLEN
# define HMAC1 psHmacSha256
#else
# define BLK 128
# define HL SHA384_HASHLEN
# define HMAC1 psHmacSha384
#endif
#ifndef VF_KL
# define VF_KL 16
#endif
#ifndef VF_ML
# define VF_ML 3
#endif
#define CAP (BLK + BLK + 72)

/* abstract hash: sessions */
static unsigned char s0[CAP], s1[CAP], s2[CAP];
static int n0, n1, n2, g_sess = -1, g_open;
static unsigned char d0[64], d1[64], d2[64];
static int g_bad;

static void h_init(void)
{
    if (g_open)
    {
        g_bad = 1; /* nested sessions never happen in HMAC */
    }
    g_sess++;
    g_open = 1;
}
static void h_update(const unsigned char *b, uint32_t len)
{
    unsigned char *s = (g_sess == 0) ? s0 : (g_sess == 1) ? s1 : s2;
    int *n = (g_sess == 0) ? &n0 : (g_sess == 1) ? &n1 : &n2;
    uint32_t i;
    if (!g_open || g_sess > 2)
    {
        g_bad = 1;
        return;
    }
    for (i = 0; i < len && i < CAP; i++)
    {
        if (*n < CAP)
        {
            s[(*n)++] = b[i];
        }
        else
        {
            g_bad = 1;
        }
    }
}
static void h_final(unsigned char *out, int hl)
{
    unsigned char *d = (g_sess == 0) ? d0 : (g_sess == 1) ? d1 : d2;
    int i;
    if (!g_open || g_sess > 2)
    {
        g_bad = 1;
        return;
    }
    for (i = 0; i < hl; i++)
    {
        d[i] = vf_u8();
        out[i] = d[i];
    }
    g_open = 0;
}
int32_t psMd5Init(psMd5_t *c) { h_init(); return 0; }
void psMd5Update(psMd5_t *c, const unsigned char *b, uint32_t l) { h_update(b, l); }
void psMd5Final(psMd5_t *c, unsigned char *h) { h_final(h, MD5_HASHLEN); }
int32_t psSha1Init(psSha1_t *c) { h_init(); return 0; }
void psSha1Update(psSha1_t *c, const unsigned char *b, uint32_t l) { h_update(b, l); }
void psSha1Final(psSha1_t *c, unsigned char *h) { h_final(h, SHA1_HASHLEN); }
int32_t psSha256Init(psSha256_t *c) { h_init(); return 0; }
void psSha256Update(psSha256_t *c, const unsigned char *b, uint32_t l) { h_update(b, l); }
void psSha256Final(psSha256_t *c, unsigned char *h) { h_final(h, SHA256_HASHLEN); }
int32_t psSha384Init(psSha384_t *c) { h_init(); return 0; }
void psSha384Update(psSha384_t *c, const unsigned char *b, uint32_t l) { h_update(b, l); }
void psSha384Final(psSha384_t *c, unsigned char *h) { h_final(h, SHA384_HASHLEN); }

static unsigned char key[VF_KL + 1], msg[VF_ML + 1], out[64], hkey[64];

VF_MAIN
{
    psSize_t hklen = 0;
    int32_t rc;
    int i, same = 1;
    const unsigned char *kp;    /* K' */
    int kl, inner, outer;
    const unsigned char *si, *so, *din, *dout;
    int ni, no;

    vf_bytes(key, VF_KL);
    vf_bytes(msg, VF_ML);
    rc = HMAC1(key, VF_KL, msg, VF_ML, out, hkey, &hklen);
    VF_ASSERT(rc == PS_SUCCESS, "c12.hmac_ok");
    VF_ASSERT(!g_bad && !g_open, "c12.hmac_sessions_well_formed");
    if (VF_KL > BLK)
    {
        /* session 0 hashed exactly the key */
        VF_ASSERT(g_sess == 2, "c12.hmac_long_key_is_hashed");
        VF_ASSERT(n0 == VF_KL, "c12.hmac_key_hash_input_length");
        for (i = 0; i < VF_KL; i++)
        {
            same &= (s0[i] == key[i]);
        }
        VF_ASSERT(same, "c12.hmac_key_hash_input");
        kp = d0;
        kl = HL;
        inner = 1;
        VF_ASSERT(hklen == HL, "c12.hmac_reported_key_length");
    }
    else
    {
        VF_ASSERT(g_sess == 1, "c12.hmac_short_key_not_hashed");
        kp = key;
        kl = VF_KL;
        inner = 0;
        VF_ASSERT(hklen == VF_KL, "c12.hmac_reported_key_length");
    }
    outer = inner + 1;
    si = (inner == 0) ? s0 : s1;
    ni = (inner == 0) ? n0 : n1;
    din = (inner == 0) ? d0 : d1;
    so = (outer == 1) ? s1 : s2;
    no = (outer == 1) ? n1 : n2;
    dout = (outer == 1) ? d1 : d2;
    VF_ASSERT(ni == BLK + VF_ML, "c12.hmac_inner_length");
    VF_ASSERT(no == BLK + HL, "c12.hmac_outer_length");
    same = 1;
    for (i = 0; i < BLK; i++)
    {
        unsigned char k = (i < kl) ? kp[i] : 0;
        same &= (si[i] == (unsigned char) (k ^ 0x36));
        same &= (so[i] == (unsigned char) (k ^ 0x5c));
    }
    VF_ASSERT(same, "c12.hmac_ipad_opad");
    same = 1;
    for (i = 0; i < VF_ML; i++)
    {
        same &= (si[BLK + i] == msg[i]);
    }
    for (i = 0; i < HL; i++)
    {
        same &= (so[BLK + i] == din[i]);
        same &= (out[i] == dout[i]);
    }
    VF_ASSERT(same, "c12.hmac_inner_message_outer_digest_result");
    VF_REACH("end");
}
