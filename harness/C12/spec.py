# C12 - Hashes, MACs, KDFs, ciphers, AEADs exact for every length and call pattern
HASHES = {256: ("crypto/digest/sha256.c", "sha256_compress", 64, 8),
          1: ("crypto/digest/sha1.c", "sha1_compress", 64, 8),
          512: ("crypto/digest/sha512.c", "sha512_compress", 128, 16),
          5: ("crypto/digest/md5.c", "md5_compress", 64, 8)}


def MD(hid, tier_hash="quick"):
    src, comp, blk, lenb = HASHES[hid]
    cases = []
    cls_q = sorted({0, 1, blk - lenb - 1, blk - lenb, blk - 1})
    nns_q = sorted({0, 1, lenb, lenb + 1, blk - 1, blk, blk + 1, 2 * blk - 1, 2 * blk, 2 * blk + 1})
    for cl in range(0, blk):
        for nn in range(0, 2 * blk + 3):
            q = (cl in cls_q and nn in nns_q)
            if not q and not (cl % 7 == 3 and nn % 11 == 5) and tier_hash == "quick" and hid != 256:
                continue
            cases.append(dict(name="upd_cl%d_n%d" % (cl, nn), tier=("quick" if q and tier_hash == "quick" else "thorough"),
                              defs={"VF_HASH": hid, "VF_STEP": 1, "VF_CL": cl, "VF_NN": nn}))
    for cl in range(0, blk):
        q = cl in cls_q
        cases.append(dict(name="fin_cl%d" % cl, tier=("quick" if q and tier_hash == "quick" else "thorough"),
                          defs={"VF_HASH": hid, "VF_STEP": 2, "VF_CL": cl, "VF_NN": 0}))
    return dict(
        name="md_buffering_%d" % hid, src="md_buffering.c", checks=COMMON["MEMCHECKS"],
        renames={src: [comp]},
        functions=["ps<Hash>Update", "ps<Hash>Final"], sources=[src],
        assumptions=["md_buffering: compression function replaced by a logging stub (block contents recorded, chaining value untouched); context invariant (buf[0..curlen) = stream tail, length = bits compressed) assumed before and asserted after each step; (curlen, n) enumerated as concrete cases, all byte values and the 64-bit counter symbolic"],
        cases=cases,
    )


def HMAC(hid, blk):
    kls = [0, 1, 20, blk - 1, blk, blk + 1, blk + 9]
    return dict(
        name="hmac_%d" % hid, src="hmac.c", checks=COMMON["MEMCHECKS"],
        functions=["psHmacMd5/Sha1/Sha256/Sha384 (one-shot)", "psHmac*Init", "psHmac*Update", "psHmac*Final"],
        sources=["crypto/digest/hmac.c"],
        assumptions=["hmac: digest Init/Update/Final are logging stubs (per session: exact bytes absorbed; arbitrary digest); key and message lengths enumerated, contents symbolic"],
        unwind=220,
        cases=[dict(name="k%d_m%d" % (kl, ml), tier=("quick" if ml == 3 else "thorough"), defs={"VF_HASH": hid, "VF_KL": kl, "VF_ML": ml})
               for kl in kls for ml in (3, 0, 70)],
    )


GCM = dict(
    name="gcm_ctr", src="gcm_ctr.c", checks=COMMON["MEMCHECKS"],
    renames={"crypto/symmetric/aesGCM.c": ["psGhashUpdate"]},
    functions=["psAesEncryptGCMx", "psAesEncryptGCM", "psAesDecryptGCMtagless"], sources=["crypto/symmetric/aesGCM.c"],
    assumptions=["gcm_ctr: psAesEncryptBlock is a stub returning arbitrary keystream blocks and logging the counter block; psGhashUpdate is a logging stub; (OutputBufferCount, length, direction, in-place) enumerated"],
    unwind=40,
    cases=[dict(name="obc%d_n%d_d%d_ip%d" % (o, n, d, ip), tier=("quick" if (n in (1, 16, 17, 33) and o in (0, 5, 16) and ip == 0) or (n == 17 and o == 5) else "thorough"),
                defs={"VF_OBC": o, "VF_NN": n, "VF_DIR": d, "VF_INPLACE": ip})
           for o in (0, 1, 5, 15, 16) for n in (1, 5, 15, 16, 17, 32, 33, 37) for d in (0, 1) for ip in (0, 1)],
)
HARNESSES = [GCM, MD(256), MD(1), MD(512), MD(5, tier_hash="thorough"), HMAC(5, 64), HMAC(1, 64), HMAC(256, 64), HMAC(384, 128)]
HARNESSES.append(dict(
    name="hkdf_expand", src="hkdf.c", checks=COMMON["MEMCHECKS"], units=["crypto/common/alg_info.c"],
    functions=["psHkdfExpand", "psGetOutputBlockLength"], sources=["crypto/digest/hkdf.c"],
    assumptions=["hkdf_expand: psHmac is a logging stub with arbitrary output (HMAC-SHA256, 32-byte blocks); PRK of 32 bytes; info 0..6 bytes; L = 0..70 (up to 3 blocks)"],
    undefined_ok="*", unwind=80, cbmc_flags=["--object-bits", "11"],
    cases=[dict(name="l70", defs={"VF_OP": 0, "VF_MAXL": 70})]))
HARNESSES.append(dict(
    name="hkdf_label", src="hkdf.c", renames={"crypto/digest/hkdf.c": ["psHkdfExpand"]}, checks=COMMON["MEMCHECKS"], units=["crypto/common/alg_info.c"],
    functions=["psHkdfExpandLabel", "psDynBufInit", "psDynBufAppendTlsVector", "psDynBufDetachPsSize"], sources=["crypto/digest/hkdf.c", "core/src/psbuf.c"],
    assumptions=["hkdf_label: psHkdfExpand is a logging stub; label / context lengths enumerated ((1,0) (8,8) (5,3) (6,1) (8,0)), contents and the 16-bit length arbitrary; dynamic buffers over the static-pool heap model (allocation succeeds)"],
    undefined_ok="*", unwind=70, cbmc_flags=["--object-bits", "11"],
    cases=[dict(name="l%d_c%d" % (l, c), defs={"VF_OP": 1, "VF_LL": l, "VF_CL": c}) for l, c in ((1, 0), (8, 8), (5, 3), (6, 1), (8, 0))]))
PROPERTY = dict(level='model_checking',
    claim='Modulo the compression/block functions (logging stubs): digest buffering, padding and length encoding (inductive step covering every split), HMAC per RFC 2104 incl. long keys, GCM CTR/GHASH streaming core independent of the split; HKDF-Expand per RFC 5869 (block inputs T(k-1) || info || k, OKM = prefix of the concatenation) for every length 0..70; HKDF-Expand-Label hands Expand exactly the RFC 8446 7.1 HkdfLabel encoding (length, tls13-prefixed label, context).',
    bounds='every enumerated (curlen, n) pair of the quick set (thorough: all 64x131 for SHA-256), key lengths around the block size, GCM lengths <= 37',
    outside='the compression functions, AES, GHASH multiplication, ChaCha20-Poly1305, HKDF-Extract, PBKDF2, CBC modes; lengths beyond the bounds',
    explanation='Modulo the compression/block functions (logging stubs): digest buffering, padding and length encoding (inductive step covering every split), HMAC per RFC 2104 incl. long keys, GCM CTR/GHASH streaming core independent of the split; HKDF-Expand per RFC 5869 (block inputs T(k-1) || info || k, OKM = prefix of the concatenation) for every length 0..70; HKDF-Expand-Label hands Expand exactly the RFC 8446 7.1 HkdfLabel encoding (length, tls13-prefixed label, context).',
    assumptions=[])
