/* hkdf.c - C12.f / C10.a: HKDF-Expand (RFC 5869 2.3) and the TLS 1.3
 * HKDF-Expand-Label wrapper (RFC 8446 7.1) are exact for every length.
 * Units: the real psHkdfExpand, psHkdfExpandLabel (crypto/digest/hkdf.c) with
 * the real psbuf.c dynamic buffers (VF_OP 1).
 * psHmac is a logging stub returning arbitrary bytes: the structure
 *   T(1) = HMAC(PRK, info || 01), T(k) = HMAC(PRK, T(k-1) || info || k),
 *   OKM = first L octets of T(1) || T(2) || ...
 * is decided for every output the real HMAC could produce.
 *   VF_OP 0: psHkdfExpand, okmLen 0..VF_MAXL, info 0..6 bytes
 *   VF_OP 1: psHkdfExpandLabel: the HkdfLabel structure handed to Expand
 */
#include "vf.h"
#if VF_OP == 1
# define VF_HEAP_SLOT 64
# include "heap_model.h"
#endif
#include "crypto/cryptoImpl.h"
#if VF_OP == 1
/* the dynamic buffers grow in steps of PS_DYNBUF_GROW (256): scaled to 16 so
   that every block fits a slot of the heap model (the step is not observable) */
# undef PS_DYNBUF_GROW
# define PS_DYNBUF_GROW 16
# include "core/src/psbuf.c"
#endif
#include "trace_stubs.h"

#define HL 32
#ifndef VF_MAXL
# define VF_MAXL 70
#endif
#define NI 6
#define MAXCALLS (VF_MAXL / HL + 2)

static unsigned char PRK[HL], INFO[NI];
static unsigned char T0[HL], T1[HL], T2[HL], T3[HL];
static unsigned char IN0[HL + NI + 1], IN1[HL + NI + 1], IN2[HL + NI + 1], IN3[HL + NI + 1];
static uint32_t INLEN[4];
static int g_calls, g_key_bad;

static unsigned char *tk(int k)
{
    return k == 0 ? T0 : k == 1 ? T1 : k == 2 ? T2 : T3;
}
static unsigned char *ink(int k)
{
    return k == 0 ? IN0 : k == 1 ? IN1 : k == 2 ? IN2 : IN3;
}

#if VF_OP == 0
# include "crypto/digest/hkdf.c"
int32_t psHmac(psCipherType_e type, const unsigned char *key, psSize_t keyLen, const unsigned char *buf, uint32_t len,
    unsigned char hash[MAX_HASHLEN])
{
    uint32_t i;
    int k = g_calls;
    if (key != PRK || keyLen != HL || type != HMAC_SHA256)
    {
        g_key_bad++;
    }
    if (k < 4)
    {
        INLEN[k] = len;
        for (i = 0; i < HL + NI + 1; i++)
        {
            if (i < len)
            {
                ink(k)[i] = buf[i];
            }
        }
        for (i = 0; i < HL; i++)
        {
            hash[i] = tk(k)[i];
        }
    }
    g_calls++;
    return vf_bool() ? PS_SUCCESS : PS_FAILURE;
}

VF_MAIN
{
    static unsigned char OKM[VF_MAXL + 1];
    psSize_t L = vf_u8(), il = vf_u8();
    int32_t rc;
    uint32_t i, n;
    int k, ok = 1;

    vf_bytes(PRK, HL);
    vf_bytes(INFO, NI);
    vf_bytes(T0, HL);
    vf_bytes(T1, HL);
    vf_bytes(T2, HL);
    vf_bytes(T3, HL);
    VF_ASSUME(L <= VF_MAXL && il <= NI);
    OKM[VF_MAXL] = 0xA5;

    rc = psHkdfExpand(HMAC_SHA256, PRK, HL, INFO, il, OKM, L);

    if (rc == PS_SUCCESS)
    {
        VF_REACH("expanded");
        n = (L + HL - 1) / HL; /* N = ceil(L / HashLen) */
        VF_ASSERT(g_key_bad == 0, "c12.hkdf_every_block_keyed_with_prk");
        VF_ASSERT((uint32_t) g_calls >= n && (uint32_t) g_calls <= n + 1 && g_calls >= 1, "c12.hkdf_block_count");
        for (k = 0; k < 4; k++)
        {
            if ((uint32_t) k < n)
            {
                uint32_t off = (k == 0) ? 0 : HL;
                ok &= (INLEN[k] == off + il + 1);
                for (i = 0; i < HL; i++)
                {
                    if (k > 0)
                    {
                        ok &= (ink(k)[i] == tk(k - 1)[i]);      /* T(k-1) */
                    }
                }
                for (i = 0; i < NI; i++)
                {
                    if (i < il)
                    {
                        ok &= (ink(k)[off + i] == INFO[i]);     /* info */
                    }
                }
                ok &= (ink(k)[off + il] == (unsigned char) (k + 1)); /* counter */
            }
        }
        VF_ASSERT(ok, "c12.hkdf_block_input_is_prev_info_counter");
        ok = 1;
        for (i = 0; i < VF_MAXL; i++)
        {
            if (i < L)
            {
                ok &= (OKM[i] == tk(i / HL)[i % HL]);
            }
        }
        VF_ASSERT(ok, "c12.hkdf_okm_is_prefix_of_concatenated_blocks");
        VF_ASSERT(OKM[VF_MAXL] == 0xA5, "c12.hkdf_writes_only_okm_len");
    }
    else
    {
        VF_REACH("refused");
    }
    VF_REACH("end");
}
#else
/* ---- HKDF-Expand-Label: the HkdfLabel encoding ---- */
static unsigned char g_info[64];
static psSize_t g_infolen, g_len;
static int g_expand;
int32_t psHkdfExpand(psCipherType_e hmacAlg, const unsigned char *prk, psSize_t prkLen, const unsigned char *info, psSize_t infoLen,
    unsigned char *okm, psSize_t okmLen);
/* (the definition of psHkdfExpand in the derived copy is renamed by the spec) */
# include "crypto/digest/hkdf.c"
int32_t psHmac(psCipherType_e type, const unsigned char *key, psSize_t keyLen, const unsigned char *buf, uint32_t len,
    unsigned char hash[MAX_HASHLEN])
{
    return PS_FAILURE;
}
int32_t psHkdfExpand(psCipherType_e hmacAlg, const unsigned char *prk, psSize_t prkLen, const unsigned char *info, psSize_t infoLen,
    unsigned char *okm, psSize_t okmLen)
{
    psSize_t i;
    g_expand++;
    g_infolen = infoLen;
    g_len = okmLen;
    for (i = 0; i < 64; i++)
    {
        if (i < infoLen)
        {
            g_info[i] = info[i];
        }
    }
    return PS_SUCCESS;
}

VF_MAIN
{
    static unsigned char OUT[8];
    static char LABEL[8];
    static unsigned char CTX[8];
    psSize_t ll = vf_u8(), cl = vf_u8(), length = vf_u16();
    int32_t rc;
    psSize_t i;
    int ok = 1;

    vf_bytes((unsigned char *) LABEL, 8);
    vf_bytes(CTX, 8);
    VF_ASSUME(ll >= 1 && ll <= 8 && cl <= 8);
#ifdef VF_LL
    /* label / context lengths enumerated by the driver (contents symbolic) */
    ll = VF_LL;
    cl = VF_CL;
#endif

    rc = psHkdfExpandLabel(NULL, HMAC_SHA256, PRK, HL, LABEL, ll, CTX, cl, length, OUT);

    if (rc == PS_SUCCESS)
    {
        VF_REACH("label_built");
        VF_ASSERT(g_expand == 1 && g_len == length, "c10.hkdf_label_output_length_passed_on");
        VF_ASSERT(g_infolen == 2 + 1 + 6 + ll + 1 + cl, "c10.hkdf_label_total_length");
        ok &= (g_info[0] == (unsigned char) (length >> 8) && g_info[1] == (unsigned char) length);
        ok &= (g_info[2] == 6 + ll);
        ok &= (g_info[3] == 't' && g_info[4] == 'l' && g_info[5] == 's' && g_info[6] == '1' && g_info[7] == '3' && g_info[8] == ' ');
        for (i = 0; i < 8; i++)
        {
            if (i < ll)
            {
                ok &= (g_info[9 + i] == (unsigned char) LABEL[i]);
            }
            if (i < cl)
            {
                ok &= (g_info[9 + ll + 1 + i] == CTX[i]);
            }
        }
        ok &= (g_info[9 + ll] == cl);
        VF_ASSERT(ok, "c10.hkdf_label_is_length_tls13_label_context");
    }
# ifdef VF_CBMC
    VF_ASSERT(VF_HEAP_OK(), "c08.hkdf_label_block_operations_inside_allocations");
    VF_ASSERT(rc != PS_SUCCESS || vf_heap_live == 0, "c19.hkdf_label_releases_its_buffers");
# endif
    VF_REACH("end");
}
#endif
