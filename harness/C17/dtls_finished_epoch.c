/* dtls_finished_epoch.c - C17: a DTLS ChangeCipherSpec/Finished flight, first
 * transmission or re-encoded retransmission, is always sealed under an epoch
 * that was never used for sending before, with the record sequence number
 * restarted at zero - so no (epoch, sequence number) pair, and with it no AEAD
 * nonce, is ever produced twice under one key.
 * Unit: the real processFinished (matrixssl/sslEncode.c) and incrTwoByte
 * (matrixssl/dtls.c).  sslActivateWriteCipher / sslSnapshotHSHash are stubs.
 */
#include "vf.h"
#include "matrixssl/matrixsslImpl.h"
#include "matrixssl/sslEncode.c"
#include "ssl_state.h"
#include "trace_stubs.h"

static int g_activate;
int32 sslActivateWriteCipher(ssl_t *ssl)
{
    g_activate++;
    return vf_bool() ? PS_SUCCESS : PS_FAILURE;
}
int32_t sslSnapshotHSHash(ssl_t *ssl, unsigned char *out, psBool_t sender, psBool_t isFinishedHash)
{
    return vf_bool() ? TLS_HS_FINISHED_SIZE : -1;
}

VF_MAIN
{
    ssl_t *ssl = &S;
    flightEncode_t msg;
    static unsigned char hdr[16], hash[64];
    uint32_t e0, l0, e1, l1;
    int32_t rc;

    VF_HAVOC(S, ssl_t);
    vf_ssl_scalars(ssl, 0);
    vf_ssl_pointers(ssl);
    vf_bytes(ssl->largestEpoch, 2);
    vf_bytes(ssl->rsn, 6);
    ssl->retransmit = vf_bool();
    ssl->delayHsHash = hash;
    e0 = ((uint32_t) ssl->epoch[0] << 8) | ssl->epoch[1];
    l0 = ((uint32_t) ssl->largestEpoch[0] << 8) | ssl->largestEpoch[1];
    /* RI: largestEpoch is the largest epoch ever used for sending; the epoch
       space is not exhausted (65535 handshakes on one association) */
    VF_ASSUME(e0 <= l0 && l0 < 0xFFFF);
    memset(&msg, 0, sizeof(msg));
    msg.hsMsg = vf_bool() ? SSL_HS_FINISHED : (int32) vf_u8();
    msg.seqDelay = hdr;

    rc = processFinished(ssl, &msg);

    e1 = ((uint32_t) ssl->epoch[0] << 8) | ssl->epoch[1];
    l1 = ((uint32_t) ssl->largestEpoch[0] << 8) | ssl->largestEpoch[1];
    if (msg.hsMsg == SSL_HS_FINISHED)
    {
        VF_REACH("finished_flight");
        VF_ASSERT(e1 > l0, "c17.dtls_finished_epoch_never_used_before");
        /* (on a byte carry incrTwoByte leaves largestEpoch above the epoch sent: epochs are skipped, never reused) */
        VF_ASSERT(l1 >= e1, "c17.dtls_largest_epoch_covers_sent_epoch");
        VF_ASSERT((ssl->rsn[0] | ssl->rsn[1] | ssl->rsn[2] | ssl->rsn[3] | ssl->rsn[4] | ssl->rsn[5]) == 0, "c17.dtls_rsn_restarts_with_new_epoch");
        if (ssl->retransmit)
        {
            VF_REACH("retransmitted_flight");
        }
    }
    else
    {
        VF_REACH("other_message");
        VF_ASSERT(e1 == e0 && l1 == l0, "c17.dtls_epoch_changes_only_with_finished");
    }
    /* the record header carries the epoch and sequence number just chosen */
    VF_ASSERT(hdr[0] == ssl->epoch[0] && hdr[1] == ssl->epoch[1] && hdr[7] == ssl->rsn[5], "c17.dtls_header_carries_epoch_and_rsn");
    (void) rc;
    VF_REACH("end");
}
