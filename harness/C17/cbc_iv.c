/* cbc_iv.c - C17: every CBC record written under TLS 1.1+ / DTLS starts its
 * encrypted part with a full cipher block drawn from the PRNG for this record
 * (explicit IV): the PRNG is asked exactly once, for exactly blockSize bytes,
 * at exactly the first byte that will be encrypted, nothing overwrites those
 * bytes afterwards and the write cursor moves past them.  The delayed
 * Finished message (sealed later under ssl->cipher) takes the block size from
 * ssl->cipher; every other record from the active write state.
 * Unit: the real writeRecordHeader, psWriteRecordInfo, psWriteHandshakeHeader
 * (matrixssl/sslEncode.c).  psGetPrngLocked is a stub that logs its arguments
 * and either delivers arbitrary bytes (ghost copy kept) or fails.
 */
#include "vf.h"
#include "matrixssl/matrixsslImpl.h"
#include "matrixssl/sslEncode.c"
#include "ssl_state.h"
#include "trace_stubs.h"

#define VF_OUT 160
static unsigned char g_out[VF_OUT];
static int g_prng_calls;
static unsigned char *g_prng_ptr;
static uint32_t g_prng_len;
static unsigned char g_prng_bytes[16];
static int g_prng_fail;

int32_t psGetPrngLocked(unsigned char *bytes, psSize_t size, void *userPtr)
{
    psSize_t i;

    g_prng_calls++;
    g_prng_ptr = bytes;
    g_prng_len = size;
    VF_ASSERT(size <= 16, "c17.cbc_iv_prng_request_at_most_one_block");
    if (vf_bool())
    {
        /* the PRNG may fail (entropy source, lock): nothing is delivered */
        g_prng_fail = 1;
        return PS_FAILURE;
    }
    for (i = 0; i < size && i < 16; i++)
    {
        g_prng_bytes[i] = vf_u8();
        bytes[i] = g_prng_bytes[i];
    }
    return size;
}

VF_MAIN
{
    ssl_t *ssl = &S;
    uint8_t type, hsType, k;
    uint16_t messageSize;
    uint8_t padLen = 0;
    unsigned char *encryptStart = NULL, *c = g_out, *end = g_out + VF_OUT;
    int32_t rc;
    unsigned bs, i;
    int cbc;
    int32_t msn0;
    uint8_t room;

    VF_HAVOC(S, ssl_t);
    vf_ssl_scalars(ssl, 0);
    vf_ssl_pointers(ssl);
    /* RI (cipher table of cipherSuite.c): block size 0/1 (AEAD, stream, null)
       or 8/16 (CBC); MAC at most SHA-384 */
    k = vf_u8();
    VF_ASSUME(k < 4);
    S_cipher.blockSize = (k == 0) ? 0 : (k == 1) ? 1 : (k == 2) ? 8 : 16;
    VF_ASSUME(S_cipher.macSize <= SHA384_HASH_SIZE);
    ssl->pmtu = vf_i32();
    VF_ASSUME(ssl->maxPtFrag > 0 && ssl->maxPtFrag <= 64);
    ssl->extFlags.truncated_hmac = vf_bool();

    k = vf_u8();
    VF_ASSUME(k < 5);
    type = (k == 0) ? SSL_RECORD_TYPE_HANDSHAKE : (k == 1) ? SSL_RECORD_TYPE_APPLICATION_DATA :
        (k == 2) ? SSL_RECORD_TYPE_ALERT : (k == 3) ? SSL_RECORD_TYPE_CHANGE_CIPHER_SPEC : SSL_RECORD_TYPE_HANDSHAKE_FIRST_FRAG;
    hsType = vf_bool() ? SSL_HS_FINISHED : vf_u8();
    messageSize = vf_u16();
    /* caller contract: the message size covers the headers; bounded payload */
    VF_ASSUME(messageSize >= ssl->recordHeadLen + ssl->hshakeHeadLen && messageSize <= 64);

    /* output room arbitrary: the SSL_FULL answer (and the retry that follows
       it) must come before anything is drawn or written */
    room = vf_u8();
    VF_ASSUME(room <= VF_OUT);
    end = g_out + room;
    msn0 = ssl->msn;

    rc = writeRecordHeader(ssl, type, hsType, &messageSize, &padLen, &encryptStart, end, &c);

    if (hsType == SSL_HS_FINISHED)
    {
        bs = S_cipher.blockSize;
        cbc = bs > 1 && !(S_cipher.flags & (CRYPTO_FLAGS_GCM | CRYPTO_FLAGS_CCM | CRYPTO_FLAGS_CHACHA));
    }
    else
    {
        bs = ssl->enBlockSize;
        cbc = bs > 1 && (ssl->flags & SSL_FLAGS_WRITE_SECURE) && !(ssl->flags & SSL_FLAGS_AEAD_W);
    }
    if (g_prng_fail)
    {
        VF_REACH("prng_failed");
        /* a record whose IV could not be drawn is never produced (its IV
           would be whatever the output buffer held before) */
        VF_ASSERT(rc < 0, "c17.cbc_iv_prng_failure_not_ignored");
    }
    if (rc == SSL_FULL || rc == DTLS_MUST_FRAG)
    {
        VF_REACH("full_or_must_frag");
        VF_ASSERT(g_prng_calls == 0, "c17.full_retry_draws_no_iv");
        VF_ASSERT(c == g_out && ssl->msn == msn0, "c17.full_retry_writes_nothing");
    }
    if (rc == PS_SUCCESS)
    {
        VF_REACH("header_written");
        VF_ASSERT(encryptStart >= g_out + ssl->recordHeadLen && encryptStart <= c, "c17.cbc_iv_encrypt_start_after_record_header");
        if (cbc && (ssl->activeVersion & v_tls_explicit_iv))
        {
            VF_REACH("cbc_explicit_iv");
            VF_ASSERT(g_prng_calls == 1, "c17.cbc_iv_one_prng_draw_per_record");
            VF_ASSERT(g_prng_ptr == encryptStart, "c17.cbc_iv_is_first_encrypted_block");
            VF_ASSERT(g_prng_len == bs, "c17.cbc_iv_full_block");
            VF_ASSERT(c >= encryptStart + bs, "c17.cbc_iv_cursor_past_iv");
            for (i = 0; i < bs && i < 16; i++)
            {
                VF_ASSERT(encryptStart[i] == g_prng_bytes[i], "c17.cbc_iv_bytes_are_prng_output");
            }
            if (hsType == SSL_HS_FINISHED)
            {
                VF_REACH("cbc_finished");
            }
            if (type == SSL_RECORD_TYPE_APPLICATION_DATA)
            {
                VF_REACH("cbc_appdata");
            }
        }
    }
    VF_REACH("end");
}
