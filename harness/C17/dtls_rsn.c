/* dtls_rsn.c - C17: the DTLS record sequence number, read as a 48-bit
 * big-endian integer, grows by exactly one per dtlsIncrRsn call (called by
 * encryptRecord after each sealed record) for every value below 2^48-1, so
 * within an epoch no (epoch, rsn) pair - the explicit AEAD nonce and the MAC
 * sequence number - is produced twice; the epoch is not touched.
 * Unit: the real dtlsIncrRsn (matrixssl/dtls.c).
 */
#include "vf.h"
#include "matrixssl/matrixsslImpl.h"
#include "ssl_state.h"

static uint64_t rsn48(const unsigned char *r)
{
    return ((uint64_t) r[0] << 40) | ((uint64_t) r[1] << 32) | ((uint64_t) r[2] << 24) |
           ((uint64_t) r[3] << 16) | ((uint64_t) r[4] << 8) | (uint64_t) r[5];
}

VF_MAIN
{
    ssl_t *ssl = &S;
    uint64_t r0, r1, r2;
    unsigned char e0, e1;

    VF_HAVOC(S, ssl_t);
    vf_bytes(ssl->rsn, 6);
    vf_bytes(ssl->largestRsn, 6);
    vf_bytes(ssl->epoch, 2);
    e0 = ssl->epoch[0];
    e1 = ssl->epoch[1];
    r0 = rsn48(ssl->rsn);
    /* two records left before the 48-bit space is exhausted */
    VF_ASSUME(r0 < 0xFFFFFFFFFFFEULL);

    dtlsIncrRsn(ssl);
    r1 = rsn48(ssl->rsn);
    dtlsIncrRsn(ssl);
    r2 = rsn48(ssl->rsn);

    VF_ASSERT(r1 == r0 + 1, "c17.dtls_rsn_plus_one_per_record");
    VF_ASSERT(r2 == r1 + 1, "c17.dtls_rsn_plus_one_per_record_again");
    VF_ASSERT(ssl->epoch[0] == e0 && ssl->epoch[1] == e1, "c17.dtls_rsn_increment_keeps_epoch");
    if ((r0 & 0xFFFF) == 0xFFFF)
    {
        VF_REACH("carry_two_bytes");
    }
    VF_REACH("end");
}
