# C17 - No AEAD nonce reuse under a key; CBC IVs fresh per record
HARNESSES = [
    COMMON["aead"]("gcm12_seal", 2, [(17, "quick"), (40, "quick"), (16, "quick")]),
    COMMON["aead"]("gcm13_seal", 4, [(1, "quick"), (40, "quick")]),
]
PROPERTY = dict(level='model_checking',
    claim='Two consecutive seals under one key use different nonces and the write sequence number increases by exactly one per sealed record (TLS 1.2 GCM explicit nonce = sequence number; TLS 1.3 nonce = IV xor sequence number).',
    bounds='record lengths enumerated; arbitrary IV and sequence number below 2^64-1',
    outside='explicit CBC IV generation, DTLS epoch/rsn handling in encryptRecord, flight retransmission, key-change resets',
    explanation='Two consecutive seals under one key use different nonces and the write sequence number increases by exactly one per sealed record (TLS 1.2 GCM explicit nonce = sequence number; TLS 1.3 nonce = IV xor sequence number).',
    assumptions=[])
