# C17 - No AEAD nonce reuse under a key; CBC IVs fresh per record
HARNESSES = [
    COMMON["aead"]("gcm12_seal", 2, [(17, "quick"), (40, "quick"), (16, "quick")]),
    COMMON["aead"]("gcm13_seal", 4, [(1, "quick"), (40, "quick")]),
    # after a HelloRetryRequest the client leaves early-data mode (no second 0-RTT flight under the early traffic key)
    dict(name="hrr_early_data", dir="C06", src="hs_msg13.c", checks=[],
         renames={"matrixssl/tls13Decode.c": ["tls13ParseClientHello", "tls13ParseServerHello", "tls13ClientActivateHsReadKeys", "tls13ParseCertificateRequest",
                                              "tls13ParseCertificate", "tls13ParseCertificateVerify", "tls13ParseFinished", "tls13ParseNewSessionTicket"],
                  "matrixssl/hsNegotiateVersion.c": ["tlsServerNegotiateVersion"]},
         units=["core/src/psbuf.c", "matrixssl/hsNegotiateVersion.c"],
         functions=["tls13ParseHandshakeMessage"], sources=["matrixssl/tls13Decode.c"],
         assumptions=["hrr_early_data: see hs_msg13 (C06): arbitrary session state, per-message parsers as stubs; tls13ParseServerHello may report a HelloRetryRequest"],
         unwind=20,
         cases=[dict(name="any", defs={"VF_VER": "(v_tls_1_3|v_tls_negotiated)"})]),
    dict(name="dtls_finished_epoch", src="dtls_finished_epoch.c", checks=[],
         units=["matrixssl/dtls.c", "matrixssl/hsNegotiateVersion.c"],
         functions=["processFinished", "incrTwoByte", "zeroSixByte"], sources=["matrixssl/sslEncode.c", "matrixssl/dtls.c"],
         assumptions=["dtls_finished_epoch: session state arbitrary (RI-ssl) with epoch <= largestEpoch < 0xFFFF; retransmit flag arbitrary; sslActivateWriteCipher / sslSnapshotHSHash are stubs with arbitrary results"],
         unwind=20,
         cases=[dict(name="dtls12", defs={"VF_VER": "(v_dtls_1_2|v_tls_negotiated)"})]),
]
PROPERTY = dict(level='model_checking',
    claim='Two consecutive seals under one key use different nonces and the write sequence number increases by exactly one per sealed record (TLS 1.2 GCM explicit nonce = sequence number; TLS 1.3 nonce = IV xor sequence number). A DTLS Finished flight (first or retransmitted) always moves to an epoch never used for sending before and restarts the record sequence number.',
    bounds='record lengths enumerated; arbitrary IV and sequence number below 2^64-1',
    outside='explicit CBC IV generation, DTLS rsn increments in encryptRecord, TLS 1.3 key-phase changes (early/handshake/application), epoch exhaustion after 65535 handshakes',
    explanation='Two consecutive seals under one key use different nonces and the write sequence number increases by exactly one per sealed record (TLS 1.2 GCM explicit nonce = sequence number; TLS 1.3 nonce = IV xor sequence number).',
    assumptions=[])
