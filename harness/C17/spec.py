# C17 - No AEAD nonce reuse under a key; CBC IVs fresh per record
HARNESSES = [
    COMMON["aead"]("gcm12_seal", 2, [(17, "quick"), (40, "quick"), (16, "quick")]),
    COMMON["aead"]("gcm13_seal", 4, [(1, "quick"), (40, "quick")]),
]
PROPERTY = dict(level="model_checking", explanation="", bounds="", outside="", assumptions=[])
