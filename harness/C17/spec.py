# C17 - No AEAD nonce reuse under a key; CBC IVs fresh per record
HARNESSES = [
    COMMON["aead"]("gcm12_seal", 2, [(17, "quick"), (40, "quick"), (16, "quick")]),
    COMMON["aead"]("gcm13_seal", 4, [(1, "quick"), (40, "quick")]),
    dict(name="dtls_finished_epoch", src="dtls_finished_epoch.c", checks=[],
         units=["matrixssl/dtls.c", "matrixssl/hsNegotiateVersion.c"],
         functions=["processFinished", "incrTwoByte", "zeroSixByte"], sources=["matrixssl/sslEncode.c", "matrixssl/dtls.c"],
         assumptions=["dtls_finished_epoch: session state arbitrary (RI-ssl) with epoch <= largestEpoch < 0xFFFF; retransmit flag arbitrary; sslActivateWriteCipher / sslSnapshotHSHash are stubs with arbitrary results"],
         unwind=20,
         cases=[dict(name="dtls12", defs={"VF_VER": "(v_dtls_1_2|v_tls_negotiated)"})]),
]
PROPERTY = dict(level='model_checking',
    claim='Two consecutive seals under one key use different nonces and the write sequence number increases by exactly one per sealed record (TLS 1.2 GCM explicit nonce = sequence number; TLS 1.3 nonce = IV xor sequence number). A DTLS Finished flight (first or retransmitted) always moves to an epoch never used for sending before and restarts the record sequence number.',
    bounds='record lengths enumerated; arbitrary IV and sequence number below 2^64-1',
    outside='explicit CBC IV generation, DTLS rsn increments in encryptRecord, TLS 1.3 key-phase changes (early/handshake/application), epoch exhaustion after 65535 handshakes',
    explanation='Two consecutive seals under one key use different nonces and the write sequence number increases by exactly one per sealed record (TLS 1.2 GCM explicit nonce = sequence number; TLS 1.3 nonce = IV xor sequence number).',
    assumptions=[])
