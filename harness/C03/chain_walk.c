/* chain_walk.c - C03.b: the chain walk of matrixValidateCertsExt
 * (matrixssl/matrixssl.c) with the real checkPathLenConstraint.
 * psX509AuthenticateCert is a contract stub (its own guarantees are decided in
 * auth_cert.c): arbitrary verdict per (subject, issuer) pair, logged; on
 * success the subject is marked PS_CERT_AUTH_PASS.
 * Chain: VF_K certificates from the peer (leaf first) + VF_A trust anchors.
 * Decided: an accepted chain has every consecutive link authenticated under
 * the next certificate (the last one under a trust anchor, after its status
 * was reset), and no CA on the path has more intermediate CA certificates
 * below it than its pathLenConstraint allows (RFC 5280 6.1.4 (l),(m)).
 */
#include "vf.h"
#include "matrixssl/matrixsslImpl.h"
#include "matrixssl/matrixssl.c"
#include "trace_stubs.h"

#ifndef VF_K
# define VF_K 2
#endif
#ifndef VF_A
# define VF_A 1
#endif
#define MAXC 5
#define MAXLOG 12

static psX509Cert_t c0, c1, c2, a0, a1;
static psX509Cert_t *const CH[3] = { &c0, &c1, &c2 };
static psX509Cert_t *const AN[2] = { &a0, &a1 };
static unsigned char h_c0[4], h_c1[4], h_c2[4], h_a0[4], h_a1[4];

static int g_n;
static psX509Cert_t *g_sc[MAXLOG], *g_ic[MAXLOG];
static int g_ok[MAXLOG], g_status_at_call[MAXLOG];

int32 psX509AuthenticateCert(psPool_t *pool, psX509Cert_t *subjectCert, psX509Cert_t *issuerCert,
    psX509Cert_t **foundIssuer, void *hwCtx, void *poolUserPtr)
{
    int ok = vf_bool();
    if (g_n < MAXLOG)
    {
        g_sc[g_n] = subjectCert;
        g_ic[g_n] = issuerCert;
        g_ok[g_n] = ok;
        g_status_at_call[g_n] = subjectCert->authStatus;
        g_n++;
    }
    if (ok)
    {
        subjectCert->authStatus = PS_CERT_AUTH_PASS;
        if (issuerCert != NULL)
        {
            *foundIssuer = issuerCert;
        }
        return PS_SUCCESS;
    }
    subjectCert->authStatus = PS_CERT_AUTH_FAIL_SIG;
    return vf_bool() ? PS_CERT_AUTH_FAIL_SIG : (vf_bool() ? PS_CERT_AUTH_FAIL_DN : PS_MEM_FAIL);
}
int32 validateDateRange(psX509Cert_t *cert)
{
    return 0;
}
int32_t psX509ValidateGeneralName(const char *n)
{
    return 0;
}

static void mk(psX509Cert_t *c, unsigned char *h)
{
    memset(c, 0, sizeof(*c));
    /* distinct certificates: the TBS digests differ (a chain that repeats the
       trust anchor is the documented pathLen exemption, decided in case SAME) */
    vf_bytes(h, 4);
    memcpy(c->sigHash, h, 4);
    c->sigHashLen = 4;
    c->extensions.bc.cA = vf_bool() ? CA_TRUE : CA_FALSE;
    c->extensions.bc.pathLenConstraint = (int32) (vf_u8() % 5) - 1; /* -1 = absent, 0..3 */
    c->authStatus = PS_FALSE; /* fresh from parsing */
    c->authFailFlags = 0;
}
static int authenticated(psX509Cert_t *sc, psX509Cert_t *ic)
{
    int i, r = 0;
    for (i = 0; i < MAXLOG; i++)
    {
        if (i < g_n && g_sc[i] == sc && g_ic[i] == ic && g_ok[i])
        {
            r = 1;
        }
    }
    return r;
}
static int same_digest(const psX509Cert_t *x, const psX509Cert_t *y)
{
    return x->sigHash[0] == y->sigHash[0] && x->sigHash[1] == y->sigHash[1] &&
           x->sigHash[2] == y->sigHash[2] && x->sigHash[3] == y->sigHash[3];
}

VF_MAIN
{
    matrixValidateCertsOptions_t opts;
    psX509Cert_t *found = NULL, *anchor = NULL;
    int32 rc;
    int i, j;

    mk(&c0, h_c0);
    mk(&c1, h_c1);
    mk(&c2, h_c2);
    mk(&a0, h_a0);
    mk(&a1, h_a1);
    for (i = 0; i + 1 < VF_K; i++)
    {
        CH[i]->next = CH[i + 1];
    }
    for (i = 0; i + 1 < VF_A; i++)
    {
        AN[i]->next = AN[i + 1];
    }
    /* all certificates distinct; with VF_SAME the top of the presented chain
       may be a copy of the trust anchor (the documented exemption) */
    for (i = 0; i < VF_K; i++)
    {
        for (j = 0; j < VF_A; j++)
        {
#ifdef VF_SAME
            if (i == VF_K - 1)
            {
                continue;
            }
#endif
            VF_ASSUME(!same_digest(CH[i], AN[j]));
        }
        for (j = i + 1; j < VF_K; j++)
        {
            VF_ASSUME(!same_digest(CH[i], CH[j]));
        }
    }
    memset(&opts, 0, sizeof(opts));
    opts.nameType = NAME_TYPE_ANY;
    opts.flags = vf_bool() ? VCERTS_FLAG_SKIP_EXPECTED_NAME_VALIDATION : 0;

    rc = matrixValidateCertsExt(NULL, &c0, &a0, NULL, &found, NULL, NULL, &opts);

    if (rc == PS_SUCCESS)
    {
        VF_REACH("accepted");
        /* every link of the presented chain was authenticated under the next certificate */
        for (i = 0; i + 1 < VF_K; i++)
        {
            VF_ASSERT(authenticated(CH[i], CH[i + 1]), "c03.walk.every_link_authenticated");
        }
        /* the top of the chain under a trust anchor, from a reset status */
        for (j = 0; j < VF_A; j++)
        {
            if (authenticated(CH[VF_K - 1], AN[j]))
            {
                anchor = AN[j];
            }
        }
        VF_ASSERT(anchor != NULL && found == anchor, "c03.walk.top_authenticated_under_reported_anchor");
        for (i = 0; i < MAXLOG; i++)
        {
            if (i < g_n && g_ic[i] != NULL && g_ok[i])
            {
                VF_ASSERT(g_status_at_call[i] == PS_FALSE, "c03.walk.status_reset_before_each_attempt");
            }
        }
        VF_ASSERT(c0.authStatus == PS_CERT_AUTH_PASS, "c03.walk.leaf_pass");
        /* path length: CH[k] (k >= 1) has k-1 intermediates below it, the
           anchor has VF_K-1 */
        for (i = 1; i < VF_K; i++)
        {
            int32 pl = CH[i]->extensions.bc.pathLenConstraint;
            VF_ASSERT(pl < 0 || pl >= i - 1, "c03.walk.path_length_respected");
        }
        if (anchor != NULL)
        {
            int32 pl = anchor->extensions.bc.pathLenConstraint;
            int below = VF_K - 1;
#ifdef VF_SAME
            /* the peer repeated the trust anchor at the top of its chain */
            if (same_digest(CH[VF_K - 1], anchor) && below > 0)
            {
                below--;
            }
#endif
            VF_ASSERT(pl < 0 || pl >= below, "c03.walk.anchor_path_length_respected");
        }
    }
    else
    {
        VF_REACH("rejected");
        VF_ASSERT(rc < 0, "c03.walk.failure_is_negative");
    }
    /* converse: a chain whose links all verify and whose constraints hold is accepted */
    {
        int good = (g_n == VF_K);
        for (i = 0; i < MAXLOG; i++)
        {
            if (i < g_n)
            {
                good &= g_ok[i];
            }
        }
        for (i = 1; i < VF_K; i++)
        {
            good &= (CH[i]->extensions.bc.pathLenConstraint < 0);
        }
        good &= (a0.extensions.bc.pathLenConstraint < 0);
        if (good)
        {
            VF_REACH("good_chain");
            VF_ASSERT(rc == PS_SUCCESS, "c03.walk.good_chain_accepted");
        }
    }
    VF_REACH("end");
}
