/* auth_cert.c - C03.a: the real psX509AuthenticateCert (crypto/keyformat/x509.c)
 * on symbolic certificates.
 *
 * VF_K  number of subject certificates linked by ->next (1..3)
 * VF_ISSUER 1: a separate issuer certificate is passed (then VF_K == 1)
 *
 * Stubs with ghost state: psVerifySig (logs tbs/sig/key/alg per call,
 * arbitrary verdict), psCRL_determineRevokedStatus (arbitrary status),
 * issuedBefore (arbitrary), psPssHashAlgToHashLen (arbitrary).
 *
 * Oracle (property C03): a certificate is left PS_CERT_AUTH_PASS only if its
 * issuer is a CA, the names chain, it is not revoked, its signature was
 * verified with the issuer's key over its own TBS digest with its own
 * algorithm (verify stub consulted with exactly these arguments and said
 * yes), key identifiers agree, the issuer may sign certificates, and it is
 * inside its validity period - or subject and issuer are the *same*
 * certificate (same TBS digest and same signature: the documented
 * "intermediate loaded as trust anchor" case).
 */
#include "vf.h"
#include "crypto/keyformat/x509.c"
#include "core/src/corelib_strings.c"
#include "trace_stubs.h"

#ifndef VF_K
# define VF_K 1
#endif
#ifndef VF_ISSUER
# define VF_ISSUER 1
#endif
#define NC (VF_K + 1)
#define SIGN 4
#define IDN 3

/* NOTE: separate objects, not arrays of arrays: CBMC 6.11 mis-evaluates
   ((unsigned char *)(const void *) p)[n] for p pointing into a row of a 2-D
   array / an array member of an array of structs when n is symbolic (found
   through a non-reproducing counterexample; see DESIGN.md) */
static psX509Cert_t C0, C1, C2, C3;
static unsigned char sig0[SIGN], sig1[SIGN], sig2[SIGN], sig3[SIGN];
static unsigned char tbs0[SIGN], tbs1[SIGN], tbs2[SIGN], tbs3[SIGN];
static unsigned char ak0[IDN], ak1[IDN], ak2[IDN], ak3[IDN];
static unsigned char sk0[IDN], sk1[IDN], sk2[IDN], sk3[IDN];
static psX509Cert_t *const CP[4] = { &C0, &C1, &C2, &C3 };
static unsigned char *const sigbuf[4] = { sig0, sig1, sig2, sig3 };
static unsigned char *const tbsbuf[4] = { tbs0, tbs1, tbs2, tbs3 };
static unsigned char *const akbuf[4] = { ak0, ak1, ak2, ak3 };
static unsigned char *const skbuf[4] = { sk0, sk1, sk2, sk3 };
#define C(i) (*CP[i])
static int cert_index(const psX509Cert_t *c)
{
    return (c == &C0) ? 0 : (c == &C1) ? 1 : (c == &C2) ? 2 : 3;
}

/* verify-call log */
#define MAXV 4
static int g_nv;
static const unsigned char *g_v_tbs[MAXV], *g_v_sig[MAXV];
static psSizeL_t g_v_tbslen[MAXV], g_v_siglen[MAXV];
static psPubKey_t *g_v_key[MAXV];
static int32_t g_v_alg[MAXV];
static int g_v_ok[MAXV];
static int g_v_digestinfo[MAXV];

psRes_t psVerifySig(psPool_t *pool, const unsigned char *msgIn, psSizeL_t msgInLen,
    const unsigned char *sig, psSize_t sigLen, psPubKey_t *key, int32_t signatureAlgorithm,
    psBool_t *verifyResult, psVerifyOptions_t *opts)
{
    int32 res = vf_bool() ? PS_SUCCESS : PS_FAILURE;
    int vr = vf_bool();
    if (g_nv < MAXV)
    {
        g_v_tbs[g_nv] = msgIn;
        g_v_tbslen[g_nv] = msgInLen;
        g_v_sig[g_nv] = sig;
        g_v_siglen[g_nv] = sigLen;
        g_v_key[g_nv] = key;
        g_v_alg[g_nv] = signatureAlgorithm;
        g_v_ok[g_nv] = (res == PS_SUCCESS && vr);
        g_v_digestinfo[g_nv] = opts->msgIsDigestInfo;
    }
    g_nv++;
    *verifyResult = vr ? PS_TRUE : PS_FALSE;
    return res;
}
static int g_crl_calls;
int32_t psCRL_determineRevokedStatus(psX509Cert_t *cert)
{
    uint8_t k = vf_u8();
    g_crl_calls++;
    VF_ASSUME(k < 6);
    cert->revokedStatus = k;   /* CRL_CHECK_* */
    return k;
}
static int g_issued_before[NC];
static int32 issuedBefore(rfc_e rfc, const psX509Cert_t *cert)
{
    return g_issued_before[cert_index(cert)];
}
psResSize_t psPssHashAlgToHashLen(int32_t alg)
{
    return vf_u16();
}

static void cert_init(int i)
{
    psX509Cert_t *c = CP[i];
    uint8_t k;

#ifdef VF_CBMC
    psX509Cert_t nondet_vf_cert(void);
    *c = nondet_vf_cert();
#else
    memset(c, 0, sizeof(*c));
#endif
    c->version = vf_i32();
    c->extensions.bc.cA = vf_i32();
    vf_bytes(c->issuer.hash, SHA1_HASH_SIZE);
    vf_bytes(c->subject.hash, SHA1_HASH_SIZE);
    vf_bytes(sigbuf[i], SIGN);
    c->signature = sigbuf[i];
    c->signatureLen = vf_u16();
    VF_ASSUME(c->signatureLen <= SIGN);
    k = vf_u8();
    VF_ASSUME(k < 5);
    c->sigHashLen = (k == 0) ? 0 : (k == 1) ? 20 : (k == 2) ? 32 : (k == 3) ? 48 : 64;
    vf_bytes(c->sigHash, MAX_HASH_SIZE);
    c->sigAlgorithm = vf_i32();
    vf_bytes(tbsbuf[i], SIGN);
    c->tbsCertStart = tbsbuf[i];
    c->tbsCertLen = vf_u16();
    VF_ASSUME(c->tbsCertLen <= SIGN);
    c->pssHash = vf_i32();
    c->saltLen = vf_u16();
    vf_bytes(akbuf[i], IDN);
    vf_bytes(skbuf[i], IDN);
    c->extensions.ak.keyId = akbuf[i];
    c->extensions.ak.keyLen = vf_u16();
    VF_ASSUME(c->extensions.ak.keyLen <= IDN);
    c->extensions.sk.id = skbuf[i];
    c->extensions.sk.len = vf_u16();
    VF_ASSUME(c->extensions.sk.len <= IDN);
    c->extensions.keyUsageFlags = vf_u32();
    c->authFailFlags = vf_u32();
    c->authStatus = vf_i32();
    c->revokedStatus = vf_i32();
    c->next = NULL;
    k = vf_u8();
    VF_ASSUME(k < 3);
    g_issued_before[i] = (int) k - 1;
}

static int same_bytes(const unsigned char *a, const unsigned char *b, unsigned n)
{
    unsigned i;
    int same = 1;
    for (i = 0; i < n && i < MAX_HASH_SIZE; i++)
    {
        same &= (a[i] == b[i]);
    }
    return same;
}

/* is (sc, ic) the same certificate? equal TBS digest and equal signature */
static int same_certificate(const psX509Cert_t *sc, const psX509Cert_t *ic)
{
    if (sc == ic)
    {
        return 1;
    }
    return sc->signatureLen == ic->signatureLen && same_bytes(sc->signature, ic->signature, sc->signatureLen)
           && sc->sigHashLen == ic->sigHashLen && sc->sigHashLen > 0
           && same_bytes(sc->sigHash, ic->sigHash, sc->sigHashLen);
}

/* was the signature of sc verified under ic's key? */
static int verified_under(const psX509Cert_t *sc, psX509Cert_t *ic)
{
    int i, ok = 0;
    for (i = 0; i < MAXV; i++)
    {
        if (i < g_nv && g_v_ok[i] && g_v_key[i] == &ic->publicKey && g_v_sig[i] == sc->signature &&
            g_v_siglen[i] == sc->signatureLen && g_v_alg[i] == sc->sigAlgorithm &&
            ((g_v_tbs[i] == sc->sigHash && g_v_tbslen[i] == sc->sigHashLen) ||
             (g_v_tbs[i] == sc->tbsCertStart && g_v_tbslen[i] == sc->tbsCertLen &&
              (sc->sigAlgorithm == OID_RSASSA_PSS || sc->sigAlgorithm == OID_ED25519_KEY_ALG))))
        {
            ok = 1;
        }
    }
    return ok;
}

static void check_pair(psX509Cert_t *sc, psX509Cert_t *ic, const psX509Cert_t *pre_sc)
{
    int samecert = same_certificate(sc, ic);
    int dn = same_bytes(sc->issuer.hash, ic->subject.hash, SHA1_HASH_SIZE);

    VF_ASSERT(sc == ic || ic->version <= 1 || ic->extensions.bc.cA == CA_TRUE, "c03.issuer_is_ca");
    VF_ASSERT(dn || samecert, "c03.names_chain_or_same_certificate");
    VF_ASSERT(verified_under(sc, ic) || (samecert && !dn), "c03.signature_verified_under_issuer_key");
    if (dn)
    {
        VF_ASSERT(sc->revokedStatus != CRL_CHECK_REVOKED_AND_AUTHENTICATED, "c03.not_revoked");
        /* key identifiers */
        if (sc->extensions.ak.keyLen > 0 || ic->extensions.sk.len > 0)
        {
            VF_ASSERT((ic->extensions.sk.len == sc->extensions.ak.keyLen &&
                 same_bytes(ic->extensions.sk.id, sc->extensions.ak.keyId, ic->extensions.sk.len)) ||
                (sc->extensions.ak.keyLen == 0 && sc->signatureLen == ic->signatureLen &&
                 same_bytes(sc->signature, ic->signature, ic->signatureLen)),
                "c03.key_identifiers_agree");
        }
        VF_ASSERT((ic->extensions.keyUsageFlags & KEY_USAGE_KEY_CERT_SIGN) ||
            (ic->extensions.keyUsageFlags == 0 && g_issued_before[cert_index(ic)] == 1), "c03.issuer_may_sign_certs");
    }
    VF_ASSERT(!(pre_sc->authFailFlags & PS_CERT_AUTH_FAIL_DATE_FLAG), "c03.inside_validity");
}

VF_MAIN
{
    static psX509Cert_t pre0, pre1, pre2, pre3;
    psX509Cert_t *const PRE[4] = { &pre0, &pre1, &pre2, &pre3 };
    psX509Cert_t *found = NULL;
    int32 rc;
    int i;

    for (i = 0; i < NC; i++)
    {
        cert_init(i);
    }
    for (i = 0; i + 1 < VF_K; i++)
    {
        C(i).next = &C(i + 1);
    }
    for (i = 0; i < NC; i++)
    {
        (*PRE[i]) = C(i);
    }

#if VF_ISSUER
    /* API precondition when an issuer is passed: the caller has reset the
       subject's status (matrixValidateCertsExt does so before every attempt;
       decided in C03.b) */
    C(0).authStatus = PS_FALSE;
    (*PRE[0]).authStatus = PS_FALSE;
    rc = psX509AuthenticateCert(NULL, &C(0), &C(VF_K), &found, NULL, NULL);
    if (rc == PS_SUCCESS)
    {
        VF_REACH("accepted");
        VF_ASSERT(C(0).authStatus != PS_FALSE, "c03.status_set");
        if (C(0).authStatus == PS_CERT_AUTH_PASS)
        {
            VF_REACH("pass");
            check_pair(&C(0), &C(VF_K), PRE[0]);
        }
    }
    else
    {
        VF_REACH("rejected");
        VF_ASSERT(C(0).authStatus != PS_CERT_AUTH_PASS, "c03.failure_never_leaves_pass");
    }
    /* the issuer is not being authenticated here: what parsing recorded about
       it (validity period, ...) must survive for the caller's chain walk */
    VF_ASSERT((C(VF_K).authFailFlags & (*PRE[VF_K]).authFailFlags) == (*PRE[VF_K]).authFailFlags,
        "c03.issuer_parse_time_failures_preserved");
    /* converse: names chain, CA, not revoked, verified, ids agree, may sign,
       in validity => accepted with PASS */
    {
        psX509Cert_t *sc = &C(0), *ic = &C(VF_K);
        int ids_ok = !((*PRE[0]).extensions.ak.keyLen > 0 || ic->extensions.sk.len > 0) ||
            (ic->extensions.sk.len == (*PRE[0]).extensions.ak.keyLen &&
             same_bytes(ic->extensions.sk.id, (*PRE[0]).extensions.ak.keyId, ic->extensions.sk.len));
        if ((ic->version <= 1 || ic->extensions.bc.cA == CA_TRUE) &&
            same_bytes((*PRE[0]).issuer.hash, ic->subject.hash, SHA1_HASH_SIZE) &&
            g_crl_calls == 1 && sc->revokedStatus != CRL_CHECK_REVOKED_AND_AUTHENTICATED &&
            g_nv == 1 && g_v_ok[0] && ids_ok &&
            (ic->extensions.keyUsageFlags & KEY_USAGE_KEY_CERT_SIGN) &&
            !((*PRE[0]).authFailFlags & PS_CERT_AUTH_FAIL_DATE_FLAG))
        {
            VF_REACH("good_chain");
            VF_ASSERT(rc == PS_SUCCESS && sc->authStatus == PS_CERT_AUTH_PASS, "c03.good_chain_accepted");
        }
    }
#else
    rc = psX509AuthenticateCert(NULL, &C(0), NULL, &found, NULL, NULL);
    if (rc == PS_SUCCESS)
    {
        VF_REACH("accepted");
    }
    /* whatever the return code: every certificate left with PASS has a
       verified link to the next certificate of the chain (the last one to
       itself: self-signed test) */
    for (i = 0; i < VF_K; i++)
    {
        if (C(i).authStatus == PS_CERT_AUTH_PASS)
        {
            psX509Cert_t *ic = (i + 1 < VF_K) ? &C(i + 1) : &C(i);
            if (i == 0)
            {
                VF_REACH("pass");
            }
            check_pair(&C(i), ic, PRE[i]);
        }
    }
    if (rc != PS_SUCCESS)
    {
        VF_REACH("rejected");
    }
#endif
    VF_REACH("end");
}
