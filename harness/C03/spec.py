# C03 - X.509 validation succeeds only for a genuinely signed path to a trust anchor
AUTH = dict(
    name="auth_cert", src="auth_cert.c", checks=[],
    renames={"crypto/keyformat/x509.c": ["issuedBefore"]},
    functions=["psX509AuthenticateCert", "memcmpct"],
    sources=["crypto/keyformat/x509.c", "core/src/corelib_strings.c"],
    assumptions=["auth_cert: psVerifySig, psCRL_determineRevokedStatus, issuedBefore, psPssHashAlgToHashLen are stubs with arbitrary verdicts (ghost log of the verify arguments); certificates are symbolic objects: signature <= 4 bytes, key ids <= 3 bytes, TBS digest of 0/20/32/48/64 bytes, every scalar the function reads arbitrary"],
    unwindset={"same_bytes:/for \\(i = 0/": 66, "verified_under:/for \\(i = 0/": 6, "memcmp.0": 30, "memcmpct:/./": 66,
               "psX509AuthenticateCert:/while \\(sc\\)/": 5, "psX509AuthenticateCert:/while \\(ic\\)/": 6},
    cases=[dict(name="issuer_k1", defs={"VF_K": 1, "VF_ISSUER": 1}),
           dict(name="chain_k1", defs={"VF_K": 1, "VF_ISSUER": 0}),
           dict(name="chain_k2", defs={"VF_K": 2, "VF_ISSUER": 0}),
           dict(name="chain_k3", tier="thorough", defs={"VF_K": 3, "VF_ISSUER": 0})],
)
HARNESSES = [AUTH]
PROPERTY = dict(level='model_checking',
    claim='psX509AuthenticateCert leaves a certificate PS_CERT_AUTH_PASS only if the issuer is a CA, names chain, it is not revoked, its signature was verified with the issuer key over its own TBS digest (verify stub consulted with exactly these arguments and said yes), key ids agree, issuer may sign, inside validity - or subject and issuer are the same certificate; conversely a chain meeting the rules is accepted.',
    bounds='1 subject + issuer, chains of 1-2 (thorough 3) certificates; signatures <= 4 bytes, key ids <= 3 bytes',
    outside='matrixValidateCertsExt chain walk / path length (C03.b), CRL lookup, parse-time checks, the signature mathematics (C11)',
    explanation='psX509AuthenticateCert leaves a certificate PS_CERT_AUTH_PASS only if the issuer is a CA, names chain, it is not revoked, its signature was verified with the issuer key over its own TBS digest (verify stub consulted with exactly these arguments and said yes), key ids agree, issuer may sign, inside validity - or subject and issuer are the same certificate; conversely a chain meeting the rules is accepted.',
    assumptions=[])
