# C03 - X.509 validation succeeds only for a genuinely signed path to a trust anchor
AUTH = dict(
    name="auth_cert", src="auth_cert.c", checks=[],
    renames={"crypto/keyformat/x509.c": ["issuedBefore"]},
    functions=["psX509AuthenticateCert", "memcmpct"],
    sources=["crypto/keyformat/x509.c", "core/src/corelib_strings.c"],
    assumptions=["auth_cert: psVerifySig, psCRL_determineRevokedStatus, issuedBefore, psPssHashAlgToHashLen are stubs with arbitrary verdicts (ghost log of the verify arguments); certificates are symbolic objects: signature <= 4 bytes, key ids <= 3 bytes, TBS digest of 0/20/32/48/64 bytes, every scalar the function reads arbitrary"],
    unwindset={"same_bytes:/for \\(i = 0/": 66, "verified_under:/for \\(i = 0/": 6, "memcmp.0": 30, "memcmpct:/./": 66,
               "psX509AuthenticateCert:/while \\(sc\\)/": 5, "psX509AuthenticateCert:/while \\(ic\\)/": 6},
    cases=[dict(name="issuer_k1", defs={"VF_K": 1, "VF_ISSUER": 1}),
           dict(name="chain_k1", defs={"VF_K": 1, "VF_ISSUER": 0}),
           dict(name="chain_k2", defs={"VF_K": 2, "VF_ISSUER": 0}),
           dict(name="chain_k3", tier="thorough", defs={"VF_K": 3, "VF_ISSUER": 0})],
)
WALK = dict(
    name="chain_walk", src="chain_walk.c", checks=[],
    units=["core/src/corelib_strings.c", "matrixssl/hsNegotiateVersion.c"],
    functions=["matrixValidateCertsExt", "checkPathLenConstraint", "memcmpct"],
    sources=["matrixssl/matrixssl.c", "core/src/corelib_strings.c"],
    assumptions=["chain_walk: psX509AuthenticateCert is a contract stub (arbitrary verdict per pair, logged; success marks the subject PASS) - its guarantees are decided by auth_cert; validateDateRange / psX509ValidateGeneralName are no-ops; expectedName is NULL (name matching is C05); certificates are fresh from parsing (authStatus PS_FALSE); pathLenConstraint in {-1 (absent), 0..3}; TBS digests of 4 bytes, pairwise distinct except in the *_same cases"],
    unwind=14, unwindset={"memcmpct:/./": 6},
    cases=[dict(name="k%d_a%d" % (k, a), defs={"VF_K": k, "VF_A": a}) for k in (1, 2, 3) for a in (1, 2)] +
          [dict(name="k%d_a1_same" % k, defs={"VF_K": k, "VF_A": 1, "VF_SAME": 1}) for k in (2, 3)],
)
HARNESSES = [AUTH, WALK]
PROPERTY = dict(level='model_checking',
    claim='psX509AuthenticateCert leaves a certificate PS_CERT_AUTH_PASS only if the issuer is a CA, names chain, it is not revoked, its signature was verified with the issuer key over its own TBS digest (verify stub consulted with exactly these arguments and said yes), key ids agree, issuer may sign, inside validity - or subject and issuer are the same certificate; conversely a chain meeting the rules is accepted. matrixValidateCertsExt accepts a chain only if every link was authenticated under the next certificate and the top under the reported trust anchor (from a reset status), and no CA has more intermediates below it than its pathLenConstraint allows.',
    bounds='1 subject + issuer, chains of 1-2 (thorough 3) certificates; signatures <= 4 bytes, key ids <= 3 bytes',
    outside='chains longer than 3 + anchor in the walk, CRL lookup, parse-time checks, the signature mathematics (C11)',
    explanation='psX509AuthenticateCert leaves a certificate PS_CERT_AUTH_PASS only if the issuer is a CA, names chain, it is not revoked, its signature was verified with the issuer key over its own TBS digest (verify stub consulted with exactly these arguments and said yes), key ids agree, issuer may sign, inside validity - or subject and issuer are the same certificate; conversely a chain meeting the rules is accepted.',
    assumptions=[])
