/* eph_cache.c - C20: the ephemeral ECDHE key cache shared by all sessions of
 * an sslKeys_t (matrixSslGenEphemeralEcKey, matrixssl/matrixsslKeys.c).
 * Unit: the real matrixSslGenEphemeralEcKey from an arbitrary cache state.
 * Stubs with ghost state: psEccGenKey / psEccCopyKey / psEccClearKey (log the
 * key object they touch and whether the cache mutex was held), psGetTime,
 * psDiffMsecs (arbitrary elapsed time), mutex functions (lock ghost).
 * derive.py wraps every use of keys->cache.eccPrivKey / eccPrivKeyUse /
 * eccPrivKeyTime with VF_GUARD(..., keys->cache.lock).
 */
#define NEED_PS_TIME_CONCRETE
#include "vf.h"
#include "matrixssl/matrixsslImpl.h"
#include "lock_ghost.h"
#include "matrixssl/matrixsslKeys.c"
#include "trace_stubs.h"

static sslKeys_t K;
static psEccKey_t OUT;
static psEccCurve_t curveA, curveB;
static int g_gen, g_copy, g_clear, g_unlocked_touch;
static int g_gen_rc, g_copy_rc;
static const psEccCurve_t *g_gen_curve;
static int32 g_elapsed;

int32_t psEccGenKey(psPool_t *pool, psEccKey_t *key, const psEccCurve_t *curve, void *usrData)
{
    g_gen++;
    if (key == &K.cache.eccPrivKey && !vf_is_held(&K.cache.lock))
    {
        g_unlocked_touch++;
    }
    g_gen_curve = curve;
    g_gen_rc = vf_bool() ? PS_SUCCESS : PS_MEM_FAIL;
    if (g_gen_rc == PS_SUCCESS)
    {
        key->curve = curve;
    }
    return g_gen_rc;
}
int32_t psEccCopyKey(psEccKey_t *to, psEccKey_t *from)
{
    g_copy++;
    if (from == &K.cache.eccPrivKey && !vf_is_held(&K.cache.lock))
    {
        g_unlocked_touch++;
    }
    VF_ASSERT(to == &OUT && from == &K.cache.eccPrivKey, "c20.eph.copy_is_from_cache_to_caller");
    g_copy_rc = vf_bool() ? PS_SUCCESS : PS_MEM_FAIL;
    if (g_copy_rc == PS_SUCCESS)
    {
        to->curve = from->curve;
    }
    return g_copy_rc;
}
void psEccClearKey(psEccKey_t *key)
{
    g_clear++;
    if (key == &K.cache.eccPrivKey && !vf_is_held(&K.cache.lock))
    {
        g_unlocked_touch++;
    }
    key->curve = NULL;
}
int32 psGetTime(psTime_t *t, void *userPtr)
{
    t->psTimeInternal.tv_sec = vf_u32();
    t->psTimeInternal.tv_nsec = 0;
    return (int32) t->psTimeInternal.tv_sec;
}
int32 psDiffMsecs(psTime_t then, psTime_t now, void *userPtr)
{
    return g_elapsed;
}

VF_MAIN
{
    int32_t rc;
    int want = vf_bool();
    int which = vf_u8() % 3;
    uint16_t use0;
    const psEccCurve_t *cached0;

    memset(&K, 0, sizeof(K));
    memset(&OUT, 0, sizeof(OUT));
    /* arbitrary cache state; RI: use == 0 <=> no key allocated */
    K.cache.eccPrivKeyUse = vf_u16();
    use0 = K.cache.eccPrivKeyUse;
    K.cache.eccPrivKey.curve = (use0 == 0) ? NULL : (which == 0 ? &curveA : &curveB);
    cached0 = K.cache.eccPrivKey.curve;
    g_elapsed = (int32) vf_u32();
    VF_ASSUME(g_elapsed >= 0);

    rc = matrixSslGenEphemeralEcKey(&K, want ? &OUT : NULL, &curveA, NULL);

    if (rc == PS_SUCCESS)
    {
        VF_REACH("eph_ok");
        /* the caller's key is on the requested curve */
        VF_ASSERT(K.cache.eccPrivKey.curve == &curveA, "c20.eph.cache_holds_requested_curve");
        if (want)
        {
            VF_ASSERT(g_copy == 1 && OUT.curve == &curveA, "c20.eph.caller_gets_copy_on_requested_curve");
        }
        if (g_gen == 0)
        {
            VF_REACH("eph_reused");
            /* reuse only within the usage and lifetime limits */
            VF_ASSERT(cached0 == &curveA && use0 >= 1 && use0 <= ECC_EPHEMERAL_CACHE_USAGE, "c20.eph.reuse_within_usage_limit");
            VF_ASSERT(g_elapsed <= 1000 * ECC_EPHEMERAL_CACHE_SECONDS, "c20.eph.reuse_within_lifetime");
            VF_ASSERT(K.cache.eccPrivKeyUse == use0 + 1, "c20.eph.use_counted");
            VF_ASSERT(g_clear == 0, "c20.eph.reused_key_not_cleared");
        }
        else
        {
            VF_REACH("eph_regenerated");
            VF_ASSERT(g_gen == 1 && g_gen_curve == &curveA, "c20.eph.generated_once_on_requested_curve");
            VF_ASSERT(K.cache.eccPrivKeyUse == 1, "c20.eph.fresh_key_use_is_one");
            /* the old key is released exactly when there was one */
            VF_ASSERT(g_clear == (use0 != 0), "c20.eph.old_key_cleared_iff_allocated");
        }
    }
    else
    {
        VF_REACH("eph_failed");
        if (g_gen == 1 && g_gen_rc != PS_SUCCESS)
        {
            /* failed generation leaves the cache marked empty */
            VF_ASSERT(K.cache.eccPrivKeyUse == 0, "c20.eph.failed_gen_leaves_cache_empty");
        }
    }
    VF_ASSERT(g_unlocked_touch == 0, "c20.eph.key_object_only_touched_under_lock");
    VF_ASSERT_LOCK_DISCIPLINE("c20.eph");
    VF_REACH("end");
}
