/* prng_lock.c - C20: the process-wide PRNG state (gMatrixPrng) is only used
 * under prngLock, in one critical section per call, lock released on every
 * return.  Unit: the real psGetPrngLocked (crypto/prng/prng.c); psGetPrng is a
 * stub that checks the lock is held when the shared state is handed to it.
 */
#include "vf.h"
#include "crypto/cryptoImpl.h"
#include "lock_ghost.h"
static int g_get, g_get_unlocked;
int32_t psGetPrng(psRandom_t *ctx, unsigned char *bytes, psSize_t size, void *userPtr);
#include "crypto/prng/prng.c"
#include "trace_stubs.h"

int32_t psGetPrng(psRandom_t *ctx, unsigned char *bytes, psSize_t size, void *userPtr)
{
    g_get++;
    if (ctx == &gMatrixPrng && !vf_is_held(&prngLock))
    {
        g_get_unlocked++;
    }
    return vf_bool() ? (int32_t) size : PS_FAILURE;
}

VF_MAIN
{
    unsigned char out[8];
    psSize_t n = vf_u8() % 9;
    int32_t rc;

    gPrngInit = vf_bool();
    rc = psGetPrngLocked(out, n, NULL);
    if (gPrngInit)
    {
        VF_REACH("prng_used");
        VF_ASSERT(g_get == 1 && g_get_unlocked == 0, "c20.prng.shared_state_only_used_under_lock");
    }
    else
    {
        VF_REACH("prng_not_initialised");
        VF_ASSERT(rc < 0 && g_get == 0, "c20.prng.uninitialised_is_refused");
    }
    VF_ASSERT_LOCK_DISCIPLINE("c20.prng");
    VF_REACH("end");
}
