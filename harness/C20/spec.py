# C20 - Concurrent sessions sharing keys and caches are race-free and serializable
# Interleavings cannot be encoded (CBMC 6.11 rejects this code with "pointer
# handling for concurrency is unsound"); what is decided, for all inputs and
# paths of each operation, is the lock discipline that implies the property:
# every access to a shared structure happens under its mutex, in a single
# critical section per operation, with no nested or repeated locking and every
# lock released on return.
import os
_g = {"__file__": os.path.join(os.path.dirname(__file__), "..", "C14", "spec.py"), "COMMON": COMMON}
exec(compile(open(_g["__file__"]).read(), _g["__file__"], "exec"), _g)
HARNESSES = []
for h in _g["HARNESSES"]:
    if h["name"] in ("resume_by_id", "invalidate", "clear", "register") or h["name"].startswith("ticket_"):
        h2 = dict(h)
        h2["dir"] = "C14"
        h2["name"] = ("cache_" if not h["name"].startswith("ticket_") else "") + h["name"]
        h2["cases"] = [c for c in h["cases"] if c.get("tier", "quick") == "quick"]
        HARNESSES.append(h2)
HARNESSES.append(dict(
    name="eph_cache", src="eph_cache.c", checks=[],
    guards={"matrixssl/matrixsslKeys.c": {"->cache.eccPrivKey": "keys->cache.lock", "->cache.eccPrivKeyUse": "keys->cache.lock",
                                          "->cache.eccPrivKeyTime": "keys->cache.lock"}},
    units=[], functions=["matrixSslGenEphemeralEcKey"], sources=["matrixssl/matrixsslKeys.c"],
    assumptions=["eph_cache: psEccGenKey/psEccCopyKey/psEccClearKey are logging stubs with arbitrary success/failure; psDiffMsecs returns an arbitrary non-negative elapsed time; cache RI: eccPrivKeyUse == 0 <=> no key allocated"],
    unwindset={"vf_is_held:/for \\(i = 0/": 5},
    cases=[dict(name="any_state", defs={})]))
HARNESSES.append(dict(
    name="prng_lock", src="prng_lock.c", checks=[],
    renames={"crypto/prng/prng.c": ["psGetPrng"]},
    guards={"crypto/prng/prng.c": {"gMatrixPrng": "prngLock"}},
    functions=["psGetPrngLocked"], sources=["crypto/prng/prng.c"],
    assumptions=["prng_lock: psGetPrng is a stub (checks the lock when handed the global state); mutex functions replaced by the lock ghost"],
    undefined_ok="*", unwind=12, unwindset={"vf_is_held:/for \\(i = 0/": 5},
    cases=[dict(name="any", defs={})]))
PROPERTY = dict(level='other',
    claim='Lock discipline of the session cache operations for all inputs and paths: every access to g_sessionTable / g_sessionChronList happens under g_sessionTableLock, one critical section per operation, no relock, no nested locks, lock released on every return - a sufficient condition for race freedom and serializability of these operations.',
    bounds='matrixRegisterSession, matrixResumeSession, matrixUpdateSession, matrixClearSession; matrixUnlockSessionTicket, matrixCreateSessionTicket, matrixSslLoadSessionTicketKeys, matrixSslDeleteSessionTicketKey (key list / inUse under g_sessTicketLock); matrixSslGenEphemeralEcKey (cached ECDHE key under keys->cache.lock, reuse within usage/lifetime limits, caller gets a private copy); psGetPrngLocked (global PRNG state under prngLock)',
    outside='interleavings cannot be encoded (CBMC aborts on this code with concurrency); the CRL cache is not instrumented; psInitPrng/psClosePrng at library open/close run single-threaded by contract',
    explanation='Sequential lockset check decided by CBMC: derive.py wraps every textual use of the shared objects with a guard that asserts the designated mutex is held (ghost lock state in psLockMutex/psUnlockMutex stubs); assertions cover all paths of each operation from an arbitrary table state.',
    assumptions=[])
