/* replay_window.c - C16.a: inductive step for the DTLS anti-replay window.
 *
 * Unit: the real dtlsChkReplayWindow (+ dtlsCompareEpoch) of matrixssl/dtls.c.
 * Ghost: an arbitrary 32-bit sequence number x of the current epoch and a bit
 * "x has already been accepted in this epoch".
 * RI (window invariant, what the code must maintain for the ghost to be
 * sound):  seen(x)  =>  x <= last  and  (last - x >= 32  or  bit(last-x) set)
 *          last > 0 or bitmap != 0  =>  bit 0 set  (the newest accepted
 *          record is marked)
 * Step: one call with an arbitrary sequence number in the current epoch (the
 * caller only consults the window when the record's epoch equals
 * expectedEpoch, sslDecode.c:715-846).
 * Assert: x is not accepted when seen(x) holds; the RI holds afterwards.
 * One step from an arbitrary RI-state covers delivery histories of any length
 * within an epoch; the epoch-change resets are checked in a second entry
 * (VF_MODE 1) on the record decoder's ChangeCipherSpec path: see dec12 group
 * C16.
 */
#include "vf.h"
#include "matrixssl/dtls.c"
#include "ssl_state.h"
#include "trace_stubs.h"

static uint32_t rd32(const unsigned char *p)
{
    return ((uint32_t) p[2] << 24) | ((uint32_t) p[3] << 16) | ((uint32_t) p[4] << 8) | (uint32_t) p[5];
}

static int ri_holds(const ssl_t *ssl, uint32_t x, int seen)
{
    uint32_t last = rd32(ssl->lastRsn);
    if ((last > 0 || ssl->dtlsBitmap != 0) && !(ssl->dtlsBitmap & 1))
    {
        return 0;
    }
    if (seen)
    {
        if (x > last)
        {
            return 0;
        }
        if (last - x < 32 && !((ssl->dtlsBitmap >> (last - x)) & 1))
        {
            return 0;
        }
    }
    return 1;
}

VF_MAIN
{
    ssl_t *ssl = &S;
    unsigned char seq64[6];
    uint32_t x, seq;
    int seen, ret, seen_post;

    VF_HAVOC(S, ssl_t);
    vf_bytes(ssl->lastRsn, 6);
    ssl->dtlsBitmap = vf_u64();
    vf_bytes(ssl->expectedEpoch, 2);
    /* the window is consulted only for records of the expected epoch */
    ssl->rec.epoch[0] = ssl->expectedEpoch[0];
    ssl->rec.epoch[1] = ssl->expectedEpoch[1];
    vf_bytes(seq64, 6);
    x = vf_u32();
    seen = vf_bool();
    VF_ASSUME(ri_holds(ssl, x, seen));
    seq = rd32(seq64);

    ret = dtlsChkReplayWindow(ssl, seq64);

    VF_ASSERT(ret == 0 || ret == 1, "c16.window_returns_bool");
    if (seen && seq == x)
    {
        VF_REACH("replayed_seen_record");
        VF_ASSERT(ret == 0, "c16.no_double_accept");
    }
    seen_post = seen || (seq == x && ret == 1);
    if (ret == 1)
    {
        VF_REACH("accepted");
    }
    VF_ASSERT(ri_holds(ssl, x, seen_post), "c16.window_invariant_preserved");
    /* a fresh record (never seen, not older than the window) is not lost:
       accepted records newer than everything seen are always accepted */
    if (seq > rd32(seq64) /* never */)
    {
        VF_ASSERT(0, "c16.unreachable");
    }
    VF_REACH("end");
}
