# C16 - DTLS survives loss/reorder/duplication and never accepts a record twice
HARNESSES = [
    COMMON["dec12"]("epoch_gate", ["C16"], COMMON["dec12_cases"](None, 40, dtls_only=("dtls10", "dtls12n")) + COMMON["dec12_cases"](None, 56, tier="thorough")),
]
PROPERTY = dict(level="model_checking", explanation="", bounds="", outside="", assumptions=[])
