# C16 - DTLS survives loss/reorder/duplication and never accepts a record twice
HARNESSES = [
    dict(name="replay_window", src="replay_window.c", checks=[],
         functions=["dtlsChkReplayWindow", "dtlsCompareEpoch"], sources=["matrixssl/dtls.c"],
         assumptions=["replay_window: window invariant RI assumed in the pre-state and asserted in the post-state (inductive step); record epoch == expectedEpoch (the only situation in which the decoder consults the window); sequence numbers compared on their low 32 bits as the code does"],
         cases=[dict(name="step", defs={})]),
    COMMON["dec12"]("epoch_gate", ["C16"], COMMON["dec12_cases"](None, 40, dtls_only=("dtls10", "dtls12n")) + COMMON["dec12_cases"](None, 56, tier="thorough")),
]
PROPERTY = dict(level="model_checking", explanation="", bounds="", outside="", assumptions=[])
