# C16 - DTLS survives loss/reorder/duplication and never accepts a record twice
HARNESSES = [
    dict(name="replay_window", src="replay_window.c", checks=[],
         functions=["dtlsChkReplayWindow", "dtlsCompareEpoch"], sources=["matrixssl/dtls.c"],
         assumptions=["replay_window: window invariant RI assumed in the pre-state and asserted in the post-state (inductive step); record epoch == expectedEpoch (the only situation in which the decoder consults the window); sequence numbers compared on their low 32 bits as the code does"],
         cases=[dict(name="step", defs={})]),
    COMMON["hs_dispatch"](only=("dtls12",)),
    COMMON["dec12"]("epoch_gate", ["C16"], COMMON["dec12_cases"](None, 40, dtls_only=("dtls10", "dtls12n")) + COMMON["dec12_cases"](None, 40, tier="thorough", dtls_only=("dtls10n", "dtls12"))),
]
PROPERTY = dict(level='model_checking',
    claim='Anti-replay window: inductive step with a ghost sequence number - a sequence number already accepted in the epoch is never accepted again and the window invariant is preserved; records of another epoch reach decrypt only in the documented catch-up cases; an epoch change resets the window. Handshake layer (parseSSLHandshake, DTLS): only the next message_seq (or a message_seq 0 hello) ever reaches a message parser; the fragment list invariant (non-empty, disjoint, inside the buffer, total = sum) is preserved by every step and reassembly terminates.',
    bounds='all 48-bit sequence numbers (low 32 bits as the code compares), 40-byte datagrams',
    outside='liveness (handshake completion under loss, retransmission timers, flight rebuilding) is not encoded; more than 2 stored fragments',
    explanation='Anti-replay window: inductive step with a ghost sequence number - a sequence number already accepted in the epoch is never accepted again and the window invariant is preserved; records of another epoch reach decrypt only in the documented catch-up cases; an epoch change resets the window. Handshake layer (parseSSLHandshake, DTLS): only the next message_seq (or a message_seq 0 hello) ever reaches a message parser; the fragment list invariant (non-empty, disjoint, inside the buffer, total = sum) is preserved by every step and reassembly terminates.',
    assumptions=[])
