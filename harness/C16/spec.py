# C16 - DTLS survives loss/reorder/duplication and never accepts a record twice
HARNESSES = [
    dict(name="replay_window", src="replay_window.c", checks=[],
         functions=["dtlsChkReplayWindow", "dtlsCompareEpoch"], sources=["matrixssl/dtls.c"],
         assumptions=["replay_window: window invariant RI assumed in the pre-state and asserted in the post-state (inductive step); record epoch == expectedEpoch (the only situation in which the decoder consults the window); sequence numbers compared on their low 32 bits as the code does"],
         cases=[dict(name="step", defs={})]),
    COMMON["dec12"]("epoch_gate", ["C16"], COMMON["dec12_cases"](None, 40, dtls_only=("dtls10", "dtls12n")) + COMMON["dec12_cases"](None, 56, tier="thorough")),
]
PROPERTY = dict(level='model_checking',
    claim='Anti-replay window: inductive step with a ghost sequence number - a sequence number already accepted in the epoch is never accepted again and the window invariant is preserved; records of another epoch reach decrypt only in the documented catch-up cases; an epoch change resets the window.',
    bounds='all 48-bit sequence numbers (low 32 bits as the code compares), 40-byte datagrams',
    outside='liveness (handshake completion under loss, retransmission timers), handshake message_seq de-duplication and fragment reassembly are not encoded',
    explanation='Anti-replay window: inductive step with a ghost sequence number - a sequence number already accepted in the epoch is never accepted again and the window invariant is preserved; records of another epoch reach decrypt only in the documented catch-up cases; an epoch change resets the window.',
    assumptions=[])
