/* ecc_test_point.c - C19 / C11.f: the on-curve check of a peer's EC public
 * point cannot be skipped by a failure on the way.
 * Unit: the real eccTestPoint (crypto/pubkey/ecc_math.c).  Every bignum
 * operation is a stub that either fails (negative code) or succeeds (ghost
 * count); the scratch allocation may fail (symbolic fault schedule).
 * Decided: eccTestPoint returns PS_SUCCESS only if every allocation and every
 * arithmetic step succeeded, all steps of y^2 = x^3 - 3x + b were executed
 * and the final comparison said "equal".
 */
#include "vf.h"
#include "crypto/cryptoImpl.h"
#include "crypto/pubkey/ecc_math.c"
#include "trace_stubs.h"

static int g_failed, g_sqr, g_mul, g_mod, g_add, g_sub, g_cmp_b, g_cmp_b_eq, g_init;
static pstm_int PRIME, Bc;
static pstm_digit pd[2] = { 1, 0 };

static int32_t step(int *counter)
{
    if (vf_bool())
    {
        g_failed++;
        return vf_bool() ? PS_MEM_FAIL : PS_FAILURE;
    }
    (*counter)++;
    return PS_SUCCESS;
}
int32_t pstm_init(psPool_t *pool, pstm_int *a)
{
    a->dp = NULL;
    a->used = 0;
    a->alloc = 0;
    a->sign = PSTM_ZPOS;
    return step(&g_init);
}
void pstm_clear(pstm_int *a)
{
}
int32_t pstm_sqr_comba(psPool_t *pool, const pstm_int *A, pstm_int *B, pstm_digit *paD, psSize_t paDlen)
{
    return step(&g_sqr);
}
int32_t pstm_mul_comba(psPool_t *pool, const pstm_int *A, const pstm_int *B, pstm_int *C, pstm_digit *paD, psSize_t paDlen)
{
    return step(&g_mul);
}
int32_t pstm_mod(psPool_t *pool, const pstm_int *a, const pstm_int *b, pstm_int *c)
{
    return step(&g_mod);
}
int32_t pstm_add(const pstm_int *a, const pstm_int *b, pstm_int *c)
{
    return step(&g_add);
}
int32_t pstm_sub(const pstm_int *a, const pstm_int *b, pstm_int *c)
{
    return step(&g_sub);
}
static int g_cmpd_calls, g_cmp_calls;
int32_t pstm_cmp_d(const pstm_int *a, pstm_digit b)
{
    /* the normalisation loops run a bounded number of times */
    g_cmpd_calls++;
    return (g_cmpd_calls <= 2 && vf_bool()) ? PSTM_LT : PSTM_GT;
}
int32_t pstm_cmp(const pstm_int *a, const pstm_int *b)
{
    if (b == &Bc)
    {
        g_cmp_b++;
        g_cmp_b_eq = vf_bool();
        return g_cmp_b_eq ? PSTM_EQ : PSTM_GT;
    }
    g_cmp_calls++;
    return (g_cmp_calls <= 2 && vf_bool()) ? PSTM_GT : PSTM_LT;
}

VF_MAIN
{
    psEccPoint_t P;
    int32 rc;

    memset(&P, 0, sizeof(P));
    PRIME.dp = pd;
    PRIME.used = 1 + (vf_u8() & 1);
    PRIME.alloc = 2;

    rc = eccTestPoint(NULL, &P, &PRIME, &Bc);

    if (rc == PS_SUCCESS)
    {
        VF_REACH("point_accepted");
        VF_ASSERT(g_failed == 0, "c19.ecc_point_accepted_only_if_no_step_failed");
#ifdef VF_FAULT_ALLOC
        VF_ASSERT(vf_alloc_faults == 0, "c19.ecc_point_accepted_only_if_no_allocation_failed");
#endif
        VF_ASSERT(g_init == 2 && g_sqr == 2 && g_mul == 1 && g_mod == 2 && g_sub >= 1 && g_add >= 3, "c11.ecc_point_check_fully_computed");
        VF_ASSERT(g_cmp_b == 1 && g_cmp_b_eq, "c11.ecc_point_accepted_only_on_curve");
    }
    else
    {
        VF_REACH("point_rejected");
        VF_ASSERT(rc < 0, "c19.ecc_point_failure_is_negative");
    }
#ifdef VF_FAULT_ALLOC
    if (vf_alloc_faults > 0)
    {
        VF_REACH("allocation_failed");
        VF_ASSERT(rc < 0, "c19.ecc_point_allocation_failure_reported");
    }
#endif
    VF_REACH("end");
}
