# C19 - Allocation failure yields a clean error, never a crash or skipped check
M = COMMON["MEMCHECKS"] + ["--memory-leak-check"]
HARNESSES = [
    dict(name="new_client_session", src="new_client.c", checks=M, malloc_may_fail=True, leak_check=True,
         functions=["matrixSslNewClientSession"], sources=["matrixssl/matrixsslApi.c"],
         assumptions=["new_client_session: every malloc/realloc may return NULL (symbolic fault schedule); matrixSslNewSession / matrixSslDeleteSession / ClientHello encoders are contract stubs; expected name of 3 characters"],
         unwind=12,
         cases=[dict(name="faults", defs={})]),
]
_hsf = COMMON["hs_dispatch"](only=("tls12",))
_hsf.update(name="hs_dispatch_faults", malloc_may_fail=True)
_hsf["assumptions"] = _hsf["assumptions"] + ["hs_dispatch_faults: every allocation of the dispatcher may fail (symbolic fault schedule on the tape)"]
HARNESSES.append(_hsf)
HARNESSES.append(
    dict(name="gn_parse_faults", dir="C09", src="gn_parse.c", checks=COMMON["MEMCHECKS"], malloc_may_fail=True, units=["crypto/keyformat/asn1.c"],
         functions=["parseGeneralNames"], sources=["crypto/keyformat/x509.c"],
         assumptions=["gn_parse_faults: every allocation may fail (symbolic fault schedule on the tape); 9-byte DER buffer"],
         defs={"VF_FAULTS": None},
         cases=[dict(name="size9", defs={"VF_SIZE": 9},
                     unwindset={"parseGeneralNames:/while \\(len >= MIN_GENERALNAME_LEN\\)/": 5,
                                "parseGeneralNames:/while \\(activeName != NULL\\)/": 5,
                                "parseGeneralNames:/for \\(c = p; c < save/": 10,
                                "strncpy.0": 20, "vf_harness:/for \\(/": 11})]))
PROPERTY = dict(level='model_checking',
    claim='With every allocation allowed to fail (fault bits drawn from the tape, all schedules decided at once): no NULL dereference, failures are reported as negative return codes, nothing leaks after delete; in the handshake dispatcher (fragment buffers, cookie, NewSessionTicket) a failed allocation never leaves the session ticket pointer dangling or its length stale.',
    bounds='matrixSslNewClientSession (callees stubbed), parseGeneralNames on 9-byte DER',
    outside='all other allocation sites (key loading, the per-message parsers, bignum scratch buffers, ticket keys)',
    explanation='With every allocation allowed to fail (fault bits drawn from the tape, all schedules decided at once): no NULL dereference, failures are reported as negative return codes, nothing leaks after delete; in the handshake dispatcher (fragment buffers, cookie, NewSessionTicket) a failed allocation never leaves the session ticket pointer dangling or its length stale.',
    assumptions=[])
