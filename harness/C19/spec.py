# C19 - Allocation failure yields a clean error, never a crash or skipped check
M = COMMON["MEMCHECKS"] + ["--memory-leak-check"]
HARNESSES = [
    dict(name="new_client_session", src="new_client.c", checks=M, malloc_may_fail=True, leak_check=True,
         functions=["matrixSslNewClientSession"], sources=["matrixssl/matrixsslApi.c"],
         assumptions=["new_client_session: every malloc/realloc may return NULL (symbolic fault schedule); matrixSslNewSession / matrixSslDeleteSession / ClientHello encoders are contract stubs; expected name of 3 characters"],
         unwind=12,
         cases=[dict(name="faults", defs={})]),
]
_hsf = COMMON["hs_dispatch"](only=("tls12",))
_hsf.update(name="hs_dispatch_faults", malloc_may_fail=True)
_hsf["assumptions"] = _hsf["assumptions"] + ["hs_dispatch_faults: every allocation of the dispatcher may fail (symbolic fault schedule on the tape)"]
HARNESSES.append(_hsf)
import os as _os
_g9 = {"__file__": _os.path.join(_os.path.dirname(__file__), "..", "C09", "spec.py"), "COMMON": COMMON}
exec(compile(open(_g9["__file__"]).read(), _g9["__file__"], "exec"), _g9)
_dnf = dict(_g9["DN"], dir="C09", name="dn_attrs_faults", malloc_may_fail=True)
_dnf["assumptions"] = _dnf["assumptions"] + ["dn_attrs_faults: every allocation may fail (symbolic fault schedule on the tape)"]
HARNESSES.append(_dnf)
HARNESSES.append(
    dict(name="ks13_faults", dir="C10", src="ks13.c", checks=COMMON["MEMCHECKS"], malloc_may_fail=True, leak_check=True,
         units=["matrixssl/hsNegotiateVersion.c"],
         functions=["tls13DeriveHandshakeTrafficSecrets"], sources=["matrixssl/tls13KeySchedule.c"],
         assumptions=["ks13_faults: see ks13 (C10); every allocation may fail; key exchange mode psk_ke or (EC)DHE"],
         undefined_ok="*", unwind=70,
         cases=[dict(name="op0", defs={"VF_OP": 0})]))
HARNESSES.append(
    dict(name="readbuf", src="readbuf.c", checks=COMMON["MEMCHECKS"], malloc_may_fail=True, leak_check=True,
         units=["matrixssl/hsNegotiateVersion.c"],
         functions=["matrixSslGetReadbufOfSize", "matrixSslGetReadbuf"], sources=["matrixssl/matrixsslApi.c"],
         assumptions=["readbuf: input buffer of 16 bytes with 0..16 unconsumed (position-tagged) bytes; requested size 1..40; every allocation may fail; heap = static-pool model"],
         undefined_ok="*", unwind=20, unwindset={"memmove:/for \\(i = 0/": 66, "realloc:/for \\(i = 0/": 66, "malloc:/for \\(j = /": 9, "vf_heap_slot_of:/for \\(j = /": 9},
         cases=[dict(name="any", defs={})]))
HARNESSES.append(
    dict(name="ecc_test_point", src="ecc_test_point.c", checks=COMMON["MEMCHECKS"], malloc_may_fail=True,
         functions=["eccTestPoint"], sources=["crypto/pubkey/ecc_math.c"],
         assumptions=["ecc_test_point: every bignum operation is a stub that fails or succeeds arbitrarily (ghost counters); the scratch allocation may fail; the two normalisation loops run at most twice"],
         undefined_ok=["pstm_copy", "pstm_init_size", "pstm_montgomery_reduce", "pstm_div_2", "pstm_mul_2", "pstm_isodd", "pstm_iszero", "pstm_set", "pstm_count_bits", "pstm_exptmod", "pstm_mulmod", "pstm_invmod",
                       "pstm_montgomery_setup", "pstm_montgomery_calc_normalization", "pstm_init_for_read_unsigned_bin", "pstm_read_unsigned_bin", "pstm_read_radix", "pstm_init_copy", "pstm_zero", "pstm_abs", "pstm_exch", "pstm_clear_multi", "pstm_add_d", "pstm_sub_d", "pstm_mul_d", "pstm_div", "pstm_lshd", "pstm_rshd", "pstm_clamp", "pstm_grow", "pstm_unsigned_bin_size", "pstm_to_unsigned_bin", "pstm_mul_comba_gen", "pstm_sqr_comba_gen", "pstm_cmp_mag"],
         unwind=6,
         cases=[dict(name="any", defs={})]))
HARNESSES.append(
    dict(name="gn_parse_faults", dir="C09", src="gn_parse.c", checks=COMMON["MEMCHECKS"], malloc_may_fail=True, units=["crypto/keyformat/asn1.c"],
         functions=["parseGeneralNames"], sources=["crypto/keyformat/x509.c"],
         assumptions=["gn_parse_faults: every allocation may fail (symbolic fault schedule on the tape); 9-byte DER buffer"],
         defs={"VF_FAULTS": None},
         cases=[dict(name="size9", defs={"VF_SIZE": 9},
                     unwindset={"parseGeneralNames:/while \\(len >= MIN_GENERALNAME_LEN\\)/": 5,
                                "parseGeneralNames:/while \\(activeName != NULL\\)/": 5,
                                "parseGeneralNames:/for \\(c = p; c < save/": 10,
                                "strncpy.0": 20, "vf_harness:/for \\(/": 11})]))
PROPERTY = dict(level='model_checking',
    claim='With every allocation allowed to fail (fault bits drawn from the tape, all schedules decided at once): no NULL dereference, failures are reported as negative return codes, nothing leaks after delete; in the handshake dispatcher (fragment buffers, cookie, NewSessionTicket) a failed allocation never leaves the session ticket pointer dangling or its length stale; eccTestPoint accepts a point only if every allocation and arithmetic step succeeded and the curve equation compared equal. matrixSslGetReadbufOfSize reports PS_MEM_FAIL with an empty buffer state and leaks nothing when an allocation fails.',
    bounds='matrixSslNewClientSession (callees stubbed), parseGeneralNames on 9-byte DER',
    outside='all other allocation sites (key loading, the per-message parsers, bignum scratch buffers, ticket keys)',
    explanation='With every allocation allowed to fail (fault bits drawn from the tape, all schedules decided at once): no NULL dereference, failures are reported as negative return codes, nothing leaks after delete; in the handshake dispatcher (fragment buffers, cookie, NewSessionTicket) a failed allocation never leaves the session ticket pointer dangling or its length stale; eccTestPoint accepts a point only if every allocation and arithmetic step succeeded and the curve equation compared equal.',
    assumptions=[])
