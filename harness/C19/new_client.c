/* new_client.c - C19: the real matrixSslNewClientSession (matrixssl/
 * matrixsslApi.c) with every allocation allowed to fail
 * (--malloc-may-fail --malloc-fail-null: the fault schedule is symbolic).
 * Stubs: matrixSslNewSession (hands out a harness session whose outbuf is a
 * real heap block, or fails), matrixSslDeleteSession (ghost: deleted, frees
 * what the session owns), ClientHello encoders (arbitrary SUCCESS / SSL_FULL /
 * error), isTls13Ciphersuite, matrixSslSetCertValidator.
 * Assert: no NULL dereference (CBMC checks); success => *ssl set, expected
 * name stored; failure => negative code, session deleted, nothing leaked.
 */
#include "vf.h"
#include "matrixssl/matrixsslApi.c"
#include "ssl_state.h"
#include "trace_stubs.h"

static int g_new_ok, g_deleted, g_hello_calls;
static ssl_t *g_sess;

int32 matrixSslNewSession(ssl_t **ssl, const sslKeys_t *keys, sslSessionId_t *session, sslSessOpts_t *options)
{
    if (vf_bool())
    {
        return PS_MEM_FAIL;
    }
    memset(&S, 0, sizeof(S));
    S.outsize = 8;
    S.outbuf = (unsigned char *) malloc(8);
    if (S.outbuf == NULL)
    {
        return PS_MEM_FAIL;
    }
    S.activeVersion = vf_bool() ? v_tls_1_3 : v_tls_1_2;
    g_new_ok = 1;
    g_sess = &S;
    *ssl = &S;
    return PS_SUCCESS;
}
void matrixSslDeleteSession(ssl_t *ssl)
{
    g_deleted++;
    if (ssl->outbuf != NULL)
    {
        free(ssl->outbuf);
        ssl->outbuf = NULL;
    }
    if (ssl->expectedName != NULL)
    {
        free(ssl->expectedName);
        ssl->expectedName = NULL;
    }
}
static int32 hello(ssl_t *ssl, sslBuf_t *out, uint32 *requiredLen)
{
    uint8_t k = vf_u8();
    g_hello_calls++;
    if ((k & 3) == 0 || g_hello_calls > 2)
    {
        out->end = out->start;
        return MATRIXSSL_SUCCESS;
    }
    if ((k & 3) == 1)
    {
        *requiredLen = 16;
        return SSL_FULL;
    }
    return MATRIXSSL_ERROR;
}
int32_t tls13WriteClientHello(ssl_t *ssl, sslBuf_t *out, const psCipher16_t cipherSpecs[], uint8_t cipherSpecsLen,
    uint32 *requiredLen, tlsExtension_t *userExt, sslSessOpts_t *options)
{
    return hello(ssl, out, requiredLen);
}
int32_t matrixSslEncodeClientHello(ssl_t *ssl, sslBuf_t *out, const psCipher16_t cipherSpec[], uint8_t cipherSpecLen,
    uint32 *requiredLen, tlsExtension_t *userExt, sslSessOpts_t *options)
{
    return hello(ssl, out, requiredLen);
}
psBool_t isTls13Ciphersuite(uint16_t suite)
{
    return vf_bool();
}
void matrixSslSetCertValidator(ssl_t *ssl, sslCertCb_t certValidator)
{
    ssl->sec.validateCert = certValidator;
}
int32_t psX509ValidateGeneralName(const char *n)
{
    return vf_bool() ? 0 : PS_FAILURE;
}

VF_MAIN
{
    ssl_t *out = NULL;
    sslSessOpts_t opts;
    char name[4];
    int32 rc;
    int use_name = vf_bool();

    memset(&opts, 0, sizeof(opts));
    name[0] = 'a';
    name[1] = (char) ('a' + (vf_u8() & 7));
    name[2] = 'c';
    name[3] = 0;

    rc = matrixSslNewClientSession(&out, NULL, NULL, NULL, 0, NULL, use_name ? name : NULL, NULL, NULL, &opts);

    if (rc == MATRIXSSL_REQUEST_SEND)
    {
        VF_REACH("created");
        VF_ASSERT(out == &S && g_deleted == 0, "c19.success_returns_live_session");
        if (use_name)
        {
            VF_ASSERT(S.expectedName != NULL && S.expectedName[0] == 'a' && S.expectedName[1] == name[1] &&
                S.expectedName[2] == 'c' && S.expectedName[3] == 0, "c19.success_stores_expected_name");
        }
        /* the application now deletes its object */
        matrixSslDeleteSession(&S);
    }
    else
    {
        VF_REACH("failed");
        VF_ASSERT(rc < 0, "c19.failure_is_negative_code");
        VF_ASSERT(!g_new_ok || g_deleted == 1, "c19.failure_deletes_the_session");
    }
    VF_REACH("end");
}
