/* readbuf.c - C19 / C08.c: matrixSslGetReadbufOfSize / matrixSslGetReadbuf
 * (matrixssl/matrixsslApi.c) with every allocation allowed to fail.
 * Decided: on success the caller gets room for `size` bytes right behind the
 * unconsumed input, which is preserved; on allocation failure the session
 * reports PS_MEM_FAIL with an empty buffer state and no block is leaked.
 * Heap = static-pool model (ghost sizes), faults drawn from the tape.
 */
#include "vf.h"
#define VF_HEAP_SLOT 64
#include "heap_model.h"
#include "matrixssl/matrixsslImpl.h"
#include "matrixssl/matrixsslApi.c"
#include "ssl_state.h"
#include "trace_stubs.h"

#define INSZ 16

VF_MAIN
{
    ssl_t *ssl = &S;
    unsigned char *buf = NULL;
    int32 size = (int32) vf_u8(), rc, inlen0;
    uint32 i;
    int ok = 1, faults0;

    VF_HAVOC(S, ssl_t);
    ssl->bufferPool = NULL;
    ssl->insize = INSZ;
    ssl->inbuf = (unsigned char *) malloc(INSZ);
    VF_ASSUME(ssl->inbuf != NULL);   /* the session exists */
    ssl->inlen = vf_u8();
    VF_ASSUME(ssl->inlen <= INSZ && size >= 1 && size <= 40);
    inlen0 = ssl->inlen;
    for (i = 0; i < INSZ; i++)
    {
        ssl->inbuf[i] = (unsigned char) (i + 1);
    }
#ifdef VF_FAULT_ALLOC
    faults0 = vf_alloc_faults;
#else
    faults0 = 0;
#endif

    rc = matrixSslGetReadbufOfSize(ssl, size, &buf);

    if (rc >= 0)
    {
        VF_REACH("room_granted");
        VF_ASSERT(rc >= size && ssl->insize - ssl->inlen >= size, "c08.readbuf_has_requested_room");
        VF_ASSERT(buf == ssl->inbuf + ssl->inlen && ssl->inlen == inlen0, "c18.readbuf_appends_behind_unconsumed_input");
        for (i = 0; i < INSZ; i++)
        {
            if (i < (uint32) inlen0)
            {
                ok &= (ssl->inbuf[i] == (unsigned char) (i + 1));
            }
        }
        VF_ASSERT(ok, "c18.readbuf_preserves_unconsumed_input");
#ifdef VF_CBMC
        VF_ASSERT(vf_heap_slot_of(ssl->inbuf) >= 0 && vf_heap_sz[vf_heap_slot_of(ssl->inbuf)] == (size_t) ssl->insize, "c08.readbuf_size_matches_allocation");
        VF_ASSERT(vf_heap_live == 1, "c19.readbuf_no_block_leaked");
#endif
    }
    else
    {
        VF_REACH("refused");
        VF_ASSERT(rc == PS_MEM_FAIL, "c19.readbuf_failure_is_mem_fail");
        VF_ASSERT(ssl->insize == 0 && ssl->inlen == 0 && ssl->inbuf == NULL, "c19.readbuf_failure_leaves_empty_buffer_state");
#ifdef VF_CBMC
        /* nothing is left allocated that the session no longer points to */
        VF_ASSERT(vf_heap_live == 0, "c19.readbuf_failure_leaks_nothing");
#endif
    }
#ifdef VF_CBMC
    VF_ASSERT(VF_HEAP_OK(), "c08.readbuf_block_operations_inside_allocations");
#endif
    (void) faults0;
    VF_REACH("end");
}
