#!/bin/sh
# baseline.sh [repo dir] - build matrixssl (guard MATRIXSSL_VERIF off) and run the
# pinned test binaries; exit 0 iff every test listed as stable_pass in
# /root/.vp/BASELINE.json is reported as passing.
R=${1:-/repo}
cd "$R" || exit 2
make -j16 >/tmp/baseline_build.$$.log 2>&1 || { echo "BUILD FAILED (see /tmp/baseline_build.$$.log)"; tail -20 /tmp/baseline_build.$$.log; exit 2; }
rm -f /tmp/baseline_build.$$.log
L=$(mktemp /tmp/baseline.XXXXXX.log)
for b in matrixssl/test/sslTest crypto/test/rsaTest crypto/test/algorithmTest crypto/test/eccTest crypto/test/throughputTest crypto/test/hmacTest; do
  echo "=== $b" >> "$L"
  ( cd "$(dirname $b)" && timeout 900 ./$(basename $b) ) >> "$L" 2>&1
  echo "=== rc=$?" >> "$L"
done
python3 - "$L" <<'PY'
import json, re, sys
log = open(sys.argv[1], errors="replace").read()
base = json.load(open("/root/.vp/BASELINE.json"))["stable_pass"]
missing = []
for name in base:
    # result lines look like "<name>... PASSED" / "<name> PASSED"
    pat = re.escape(name)
    if not re.search(pat + r".{0,80}?(PASSED|PASS|OK)", log, re.S):
        missing.append(name)
bad = re.findall(r"^.*FAILED.*$", log, re.M)
print("baseline: %d/%d stable tests found passing; FAILED lines: %d" % (len(base) - len(missing), len(base), len(bad)))
for m in missing[:20]: print("  missing:", m)
for b in bad[:20]: print("  ", b)
ok_ssl = "=== matrixssl/test/sslTest" in log and re.search(r"=== matrixssl/test/sslTest.*?=== rc=0", log, re.S)
print("sslTest rc0:", bool(ok_ssl))
sys.exit(0 if not missing and not bad and ok_ssl else 1)
PY
rc=$?
rm -f "$L"
exit $rc
