#!/usr/bin/env python3
"""regenerate MANIFEST.json from the harness specs (harness/<id>/spec.py)"""
import json
import os
import sys

VERIF = os.path.dirname(os.path.dirname(os.path.abspath(__file__)))
sys.path.insert(0, VERIF)
from vf import driver  # noqa: E402

ALL = ["C%02d" % i for i in range(1, 21)]

NA_DEFAULT = {}


def main():
    checks = []
    na = []
    for pid in ALL:
        sp = os.path.join(VERIF, "harness", pid, "spec.py")
        if not os.path.exists(sp):
            na.append({"property_id": pid, "reason": NA_DEFAULT.get(pid, "no solver-based check built yet for this property (see DESIGN.md section 3 for the planned harnesses)")})
            continue
        spec = driver.load_spec(pid)
        meta = spec.get("PROPERTY", {})
        if meta.get("not_applicable"):
            na.append({"property_id": pid, "reason": meta["not_applicable"]})
            continue
        names = [h["name"] for h in spec["HARNESSES"]]
        checks.append({
            "property_id": pid,
            "quick_cmd": "./check %s --tier quick" % pid,
            "thorough_cmd": "./check %s --tier thorough" % pid,
            "evidence_file": "/verif/evidence/%s.json" % pid,
            "replay_cmd_template": "./check %s --replay {path}" % pid,
            "engine": "cbmc",
            "level_claimed": {
                "category": meta.get("level", "model_checking"),
                "text": meta.get("claim", "bounded symbolic checking of the real functions: holds for every value of the symbolic inputs within the stated bounds (harnesses: %s)" % ", ".join(names)),
                "design_ref": "DESIGN.md section 3, %s" % pid,
            },
            "level_note": meta.get("note", "trusted: CBMC 6.11 and its C front end, the stubs and representation invariants listed in the evidence file's assumptions, asm2c translation (validated natively on every run where used)"),
            "technique": meta.get("technique", "solver-based bounded model checking (CBMC/SAT) of the real C functions with unwinding assertions; counterexamples replayed natively under ASan/UBSan"),
        })
    man = {
        "version": 1,
        "setup_cmd": "python3 -m compileall -q vf tools",
        "hooks": {
            "guard": "MATRIXSSL_VERIF",
            "enable": "checks compile derived copies of the sources with -DMATRIXSSL_VERIF through goto-cc / gcc; no hook exists in /repo (stub points are created by renaming definitions in the scratch copy, see DESIGN.md 2.2)",
            "baseline_off_cmd": "/verif/tools/baseline.sh /repo",
            "source_commits": [],
            "add_only": True,
        },
        "engines": [
            {"name": "cbmc", "path": "/verif/vf/driver.py", "serves_properties": [c["property_id"] for c in checks],
             "kind_free_text": "CBMC 6.11 bounded model checker (goto-cc, goto-instrument, cbmc; SAT back ends) driven per harness/case; own asm2c encoder for x86-64 inline assembly; native ASan/UBSan replay of counterexamples"},
        ],
        "checks": checks,
        "not_applicable": na,
        "notes": "Every check rebuilds a derived copy of /repo's working tree in a scratch directory, compiles harness+units with goto-cc and decides all assertions with cbmc. exit 0 = held within bounds (KNOWN-FINDING lines possible), 1 = confirmed VIOLATION, 2 = machinery failure (vacuous harness, unconfirmed counterexample, too-small unwinding bound), 3 = inconclusive (cap hit).",
    }
    with open(os.path.join(VERIF, "MANIFEST.json"), "w") as f:
        json.dump(man, f, indent=1)
    print("checks:", [c["property_id"] for c in checks])
    print("not_applicable:", [n["property_id"] for n in na])


if __name__ == "__main__":
    main()
