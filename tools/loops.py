#!/usr/bin/env python3
"""list loops (id, file:line) of a goto binary, restricted to reachable functions"""
import re, subprocess, sys
gb = sys.argv[1]
o = subprocess.run(["goto-instrument", "--show-loops", gb], capture_output=True, text=True).stdout
cur = None
for line in o.splitlines():
    m = re.match(r"Loop (\S+):", line)
    if m:
        cur = m.group(1)
        continue
    m = re.match(r"\s+file (\S+) line (\d+) function (\S+)", line)
    if m and cur:
        print("%-45s %s:%s" % (cur, m.group(1).split("/")[-1], m.group(2)))
        cur = None
