#!/usr/bin/env python3
"""verify_seed.py <incoming dir> <property id> <seed id>

Confirms a seeded change in a scratch worktree of /repo (never in /repo):
  1. patch applies, tree builds, the 106-test baseline + sslTest pass
  2. the demonstration fails with the change
  3. the demonstration passes without it
then runs the property's quick check against the patched worktree
(VF_REPO=<worktree>) and records whether it raises a VIOLATION.
Writes /verif/seeded/<seed id>/{patch.diff,demo files,meta.json} and removes
the worktree.
"""
import json
import os
import re
import shutil
import subprocess
import sys
import time

VERIF = os.path.dirname(os.path.dirname(os.path.abspath(__file__)))


def sh(cmd, cwd=None, timeout=3600, env=None):
    p = subprocess.run(cmd, cwd=cwd, shell=isinstance(cmd, str), capture_output=True, text=True, timeout=timeout, env=env)
    return p.returncode, p.stdout + p.stderr


def main():
    src, prop, sid = sys.argv[1], sys.argv[2], sys.argv[3]
    checks = sys.argv[4:] or [prop]
    wt = "/tmp/sv_" + sid
    meta = {"seed": sid, "property": prop, "source": "independent sub-agent given only the property text and a scratch worktree",
            "verified_at": time.strftime("%Y-%m-%dT%H:%M:%SZ", time.gmtime())}
    sh("git -C /repo worktree remove --force %s" % wt)
    shutil.rmtree(wt, ignore_errors=True)
    rc, o = sh("git -C /repo worktree add -q --detach %s HEAD" % wt)
    if rc != 0:
        print("worktree failed", o)
        return 2
    try:
        for f in ("crypto/cryptoConfig.h", "matrixssl/matrixsslConfig.h"):
            shutil.copy2(os.path.join("/repo", f), os.path.join(wt, f))
        meta["repo_head"] = sh("git -C /repo rev-parse --short HEAD")[1].strip()
        patch = os.path.join(src, "patch.diff")
        rc, o = sh("git apply --check %s" % patch, cwd=wt)
        if rc != 0:
            rc, o = sh("git apply --3way %s" % patch, cwd=wt)
            meta["apply"] = "3way" if rc == 0 else "FAILED: " + o[-400:]
            if rc != 0:
                # try with fuzz via patch(1)
                sh("git checkout -- .", cwd=wt)
                rc, o = sh("patch -p1 -F3 < %s" % patch, cwd=wt)
                meta["apply"] = "patch -F3" if rc == 0 else meta["apply"] + " | patch: " + o[-300:]
        else:
            rc, o = sh("git apply %s" % patch, cwd=wt)
            meta["apply"] = "clean"
        if rc != 0:
            meta["status"] = "patch does not apply on the current tree"
            return finish(src, sid, meta, keep=False)
        meta["files_changed"] = sh("git diff --stat", cwd=wt)[1].strip().splitlines()[-1:] if True else None
        # 1. baseline with the change
        rc, o = sh("%s/tools/baseline.sh %s" % (VERIF, wt), timeout=2400)
        meta["baseline_with_change"] = "pass" if rc == 0 else "FAIL: " + o[-600:]
        if rc != 0:
            meta["status"] = "existing tests fail with the change (not a valid seed)"
            return finish(src, sid, meta, keep=False)
        # 2. demo with the change
        run = os.path.join(src, "run.sh")
        rc, o = sh("sh %s %s" % (run, wt), cwd=src, timeout=1800)
        meta["demo_with_change_rc"] = rc
        meta["demo_with_change_tail"] = o[-500:]
        # 4. the checks against the patched tree
        det = {}
        for c in checks:
            env = dict(os.environ)
            env["VF_REPO"] = wt
            t0 = time.time()
            rc2, o2 = sh("python3 vf/driver.py %s --no-evidence" % c, cwd=VERIF, timeout=3600, env=env)
            det[c] = {"exit": rc2, "seconds": round(time.time() - t0),
                      "violations": [l for l in o2.splitlines() if l.startswith(("VIOLATION", "  harness="))][:12],
                      "other": [l[:300] for l in o2.splitlines() if l.startswith(("MACHINERY", "INCONCLUSIVE"))][:6],
                      "summary": o2.splitlines()[0] if o2 else ""}
        meta["checks_against_change"] = det
        # 3. demo without the change
        sh("git checkout -- .", cwd=wt)
        rcb, ob = sh("make -j8", cwd=wt, timeout=1800)
        if rcb != 0:
            meta["rebuild_clean"] = "FAILED " + ob[-300:]
        rc3, o3 = sh("sh %s %s" % (run, wt), cwd=src, timeout=1800)
        meta["demo_without_change_rc"] = rc3
        meta["demo_without_change_tail"] = o3[-300:]
        ok = (meta["demo_with_change_rc"] != 0 and rc3 == 0)
        meta["status"] = "confirmed" if ok else "demo did not discriminate (with=%s without=%s)" % (meta["demo_with_change_rc"], rc3)
        meta["detected_by"] = [c for c, d in det.items() if d["exit"] == 1 and d["violations"]]
        meta["flagged_nonzero_by"] = [c for c, d in det.items() if d["exit"] != 0]
        return finish(src, sid, meta, keep=ok)
    finally:
        sh("git -C /repo worktree remove --force %s" % wt)
        shutil.rmtree(wt, ignore_errors=True)


def finish(src, sid, meta, keep):
    dst = os.path.join(VERIF, "seeded", sid if keep else "_rejected_" + sid)
    shutil.rmtree(dst, ignore_errors=True)
    shutil.copytree(src, dst)
    notes = os.path.join(src, "notes.md")
    if os.path.exists(notes):
        with open(notes, errors="replace") as f:
            meta["needs_to_manifest"] = f.read()[:1500]
    with open(os.path.join(dst, "meta.json"), "w") as f:
        json.dump(meta, f, indent=1)
    print(sid, meta.get("status"), "detected_by=", meta.get("detected_by"), "nonzero=", meta.get("flagged_nonzero_by"))
    return 0


if __name__ == "__main__":
    sys.exit(main())
