#!/bin/sh
# run_thorough.sh <ids...> - run the thorough tier of the given properties in sequence (logs in /tmp)
cd "$(dirname "$0")/.."
for p in "$@"; do
  s=$(date +%s)
  ./check $p --tier thorough > /tmp/thorough_$p.log 2>&1
  rc=$?
  e=$(date +%s)
  echo "$p rc=$rc $((e-s))s $(head -1 /tmp/thorough_$p.log | cut -c1-160)"
  grep -E "^(VIOLATION|MACHINERY|INCONCLUSIVE|KNOWN-FINDING)" /tmp/thorough_$p.log | head -6
done
