#!/bin/sh
# mutcopy.sh <dst> : light scratch copy of /repo's sources (for trying a
# mutation against a check with VF_REPO=<dst>); remove it afterwards.
set -e
dst=$1
rm -rf "$dst"; mkdir -p "$dst"
for d in core crypto matrixssl configs; do
  rsync -a --include='*/' --include='*.c' --include='*.h' --include='*.inc' --include='*.def' --exclude='*' /repo/$d "$dst"/
done
