#!/bin/sh
# run_all.sh [quick|thorough] - run every claimed check in sequence, summarise
cd "$(dirname "$0")/.."
TIER=${1:-quick}
for p in $(python3 -c "import json;print(' '.join(c['property_id'] for c in json.load(open('MANIFEST.json'))['checks']))"); do
  s=$(date +%s)
  ./check $p --tier $TIER > /tmp/runall_$p.log 2>&1
  rc=$?
  e=$(date +%s)
  echo "$p rc=$rc $((e-s))s $(head -1 /tmp/runall_$p.log | cut -c1-160)"
  grep -E "^(VIOLATION|MACHINERY|INCONCLUSIVE|KNOWN-FINDING)" /tmp/runall_$p.log | head -5
done
python3-vt - <<'PY'
import json, jsonschema, glob
sch = json.load(open('/root/.vp/EVIDENCE.schema.json'))
for f in sorted(glob.glob('evidence/*.json')):
    try:
        jsonschema.validate(json.load(open(f)), sch)
    except Exception as ex:
        print("EVIDENCE INVALID", f, str(ex)[:200])
print("evidence validated")
PY
