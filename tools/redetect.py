#!/usr/bin/env python3
"""redetect.py [seed ids...] [--checks C01,C15] - re-run the property checks
against each confirmed seeded change (seeded/<id>/patch.diff applied to a light
scratch copy of /repo's current sources) and record in seeded/<id>/meta.json
which check raises a VIOLATION.  Scratch copies live under /tmp and are removed."""
import json
import os
import re
import shutil
import subprocess
import sys
import time
from concurrent.futures import ThreadPoolExecutor

VERIF = os.path.dirname(os.path.dirname(os.path.abspath(__file__)))


def sh(cmd, cwd=None, env=None, timeout=7200):
    p = subprocess.run(cmd, cwd=cwd, shell=True, capture_output=True, text=True, timeout=timeout, env=env)
    return p.returncode, p.stdout + p.stderr


def one(sid, checks_override=None):
    d = os.path.join(VERIF, "seeded", sid)
    mp = os.path.join(d, "meta.json")
    meta = json.load(open(mp))
    tmp = "/tmp/rd_" + sid
    try:
        rc, o = sh("%s/tools/mutcopy.sh %s" % (VERIF, tmp))
        if rc:
            return sid, "copy failed " + o[-200:]
        rc, o = sh("patch -p1 -F3 --no-backup-if-mismatch < %s/patch.diff" % d, cwd=tmp)
        if rc:
            meta["redetect"] = {"error": "patch does not apply: " + o[-300:]}
            json.dump(meta, open(mp, "w"), indent=1)
            return sid, "patch failed"
        checks = checks_override or meta.get("extra_checks", []) + [meta["property"]]
        det = {}
        for c in dict.fromkeys(checks):
            env = dict(os.environ)
            env["VF_REPO"] = tmp
            t0 = time.time()
            rc2, o2 = sh("python3 vf/driver.py %s --no-evidence" % c, cwd=VERIF, env=env)
            det[c] = {"exit": rc2, "seconds": round(time.time() - t0),
                      "violations": [l.strip() for l in o2.splitlines() if l.startswith("  harness=")][:12],
                      "other": [l[:300] for l in o2.splitlines() if l.startswith(("MACHINERY", "INCONCLUSIVE"))][:6],
                      "summary": o2.splitlines()[0] if o2 else ""}
        meta["checks_against_change"] = det
        meta["detected_by"] = [c for c, v in det.items() if v["exit"] == 1 and v["violations"]]
        meta["flagged_nonzero_by"] = [c for c, v in det.items() if v["exit"] != 0]
        meta["redetected_at"] = time.strftime("%Y-%m-%dT%H:%M:%SZ", time.gmtime())
        meta["redetected_repo_head"] = sh("git -C /repo rev-parse --short HEAD")[1].strip()
        json.dump(meta, open(mp, "w"), indent=1)
        return sid, "detected_by=%s nonzero=%s" % (meta["detected_by"], meta["flagged_nonzero_by"])
    finally:
        shutil.rmtree(tmp, ignore_errors=True)


def main():
    args = [a for a in sys.argv[1:] if not a.startswith("--")]
    checks = None
    jobs = 3
    for a in sys.argv[1:]:
        if a.startswith("--checks="):
            checks = a.split("=", 1)[1].split(",")
        if a.startswith("--jobs="):
            jobs = int(a.split("=", 1)[1])
    ids = args or sorted(x for x in os.listdir(os.path.join(VERIF, "seeded")) if re.match(r"C\d\d_[a-z]$", x))
    with ThreadPoolExecutor(jobs) as ex:
        for sid, res in ex.map(lambda s: one(s, checks), ids):
            print(sid, res, flush=True)


if __name__ == "__main__":
    main()
