/* vf.h - harness ABI shared by the CBMC build (-DVF_CBMC) and the native
 * replay build (-DVF_NATIVE).  See DESIGN.md section 2.4.
 *
 * All nondeterminism is drawn through vf_u8/vf_u16/vf_u32/vf_u64 (and the
 * helpers built on them).  Under CBMC each draw is a fresh nondet value that
 * is also stored into a "record" global, so that the counterexample trace
 * lists the draws in execution order; natively the draws are read
 * sequentially from a tape file produced from that trace.
 */
#ifndef VF_H
#define VF_H

#include <stdint.h>
#include <stddef.h>
#include <string.h>
#include <stdlib.h>

#if !defined(VF_CBMC) && !defined(VF_NATIVE)
# error "define VF_CBMC or VF_NATIVE"
#endif

#ifdef VF_CBMC

uint8_t  nondet_u8(void);
uint16_t nondet_u16(void);
uint32_t nondet_u32(void);
uint64_t nondet_u64(void);

/* record globals: the trace extractor looks for assignments to these */
uint8_t  vf_rec8;
uint16_t vf_rec16;
uint32_t vf_rec32;
uint64_t vf_rec64;

static inline uint8_t  vf_u8(void)  { uint8_t  v = nondet_u8();  vf_rec8  = v; return v; }
static inline uint16_t vf_u16(void) { uint16_t v = nondet_u16(); vf_rec16 = v; return v; }
static inline uint32_t vf_u32(void) { uint32_t v = nondet_u32(); vf_rec32 = v; return v; }
static inline uint64_t vf_u64(void) { uint64_t v = nondet_u64(); vf_rec64 = v; return v; }

# define VF_ASSUME(c)        __CPROVER_assume(c)
# define VF_ASSERT(c, label) __CPROVER_assert((c), "VF:" label)
/* reachability witness: must come back FAILED, otherwise the harness is vacuous */
# define VF_REACH(label)     __CPROVER_assert(0, "VF_REACH:" label)
# define VF_OBSERVE(x)       ((void) 0)
# define VF_SHOW(x)          ((void) 0)
void vf_harness(void);
# define VF_MAIN             void vf_harness(void)
int main(void) { vf_harness(); return 0; }

#else /* VF_NATIVE */

# include <stdio.h>

static unsigned char *vf_tape;
static size_t vf_tape_len, vf_tape_pos;

static inline void vf_tape_read(void *dst, size_t n)
{
    unsigned char *d = (unsigned char *) dst;
    size_t i;
    for (i = 0; i < n; i++)
    {
        d[i] = (vf_tape_pos < vf_tape_len) ? vf_tape[vf_tape_pos] : 0;
        vf_tape_pos++;
    }
}
static inline uint8_t  vf_u8(void)  { uint8_t  v; vf_tape_read(&v, 1); return v; }
static inline uint16_t vf_u16(void) { uint16_t v; vf_tape_read(&v, 2); return v; }
static inline uint32_t vf_u32(void) { uint32_t v; vf_tape_read(&v, 4); return v; }
static inline uint64_t vf_u64(void) { uint64_t v; vf_tape_read(&v, 8); return v; }

static uint64_t vf_digest = 1469598103934665603ULL;
static inline void vf_observe(uint64_t x)
{
    int i;
    for (i = 0; i < 8; i++)
    {
        vf_digest ^= (x >> (8 * i)) & 0xff;
        vf_digest *= 1099511628211ULL;
    }
}

# define VF_ASSUME(c) do { if (!(c)) { \
        fprintf(stdout, "VF_ASSUME_FAILED %s:%d %s\n", __FILE__, __LINE__, #c); \
        fflush(stdout); _Exit(77); } } while (0)
/* like CBMC, a failed assertion does not stop the run: all labels that fail
   on this tape are printed, the exit status is 1 at the end */
static int vf_failed;
# define VF_ASSERT(c, label) do { if (!(c)) { \
        fprintf(stdout, "VF_ASSERT_FAILED %s\n", label); \
        fflush(stdout); vf_failed = 1; } } while (0)
# define VF_REACH(label) do { fprintf(stdout, "VF_REACHED %s\n", label); } while (0)
# define VF_OBSERVE(x) vf_observe((uint64_t) (x))
/* debugging aid for replays: print a scalar */
# define VF_SHOW(x) fprintf(stdout, "VF_SHOW %s = %lld (0x%llx)\n", #x, (long long) (x), (unsigned long long) (x))

void vf_harness(void);
# define VF_MAIN void vf_harness(void)
# define VF_MAIN_RETURN return

int main(int argc, char **argv)
{
    if (argc > 1)
    {
        FILE *f = fopen(argv[1], "rb");
        if (f == NULL)
        {
            fprintf(stderr, "cannot open tape %s\n", argv[1]);
            return 2;
        }
        fseek(f, 0, SEEK_END);
        vf_tape_len = (size_t) ftell(f);
        fseek(f, 0, SEEK_SET);
        vf_tape = (unsigned char *) malloc(vf_tape_len + 1);
        if (fread(vf_tape, 1, vf_tape_len, f) != vf_tape_len)
        {
            return 2;
        }
        fclose(f);
    }
    vf_harness();
    fprintf(stdout, "VF_DONE digest=%016llx draws=%zu\n",
        (unsigned long long) vf_digest, vf_tape_pos);
    return vf_failed;
}
#endif

/* helpers built on the draws (identical in both builds) */
static inline void vf_bytes(void *p, size_t n)
{
    unsigned char *d = (unsigned char *) p;
    size_t i;
    for (i = 0; i < n; i++)
    {
        d[i] = vf_u8();
    }
}
static inline int32_t vf_i32(void) { return (int32_t) vf_u32(); }
static inline int vf_bool(void) { return vf_u8() & 1; }
/* value in [0,k) */
static inline uint32_t vf_choice(uint32_t k)
{
    uint32_t v = vf_u32();
    VF_ASSUME(v < k);
    return v;
}

/* ---- symbolic allocation-fault schedule (C19) ---------------------------
 * With -DVF_FAULT_ALLOC every malloc/calloc/realloc of the unit under test
 * (psMalloc & co. are macros over them) first draws one bit from the tape:
 * 1 = this allocation fails.  The schedule is therefore symbolic under CBMC
 * and replayable natively (CBMC's own --malloc-may-fail is not used). */
#ifdef VF_FAULT_ALLOC
static int vf_alloc_faults, vf_alloc_calls;
static inline void *vf_malloc(size_t n)
{
    vf_alloc_calls++;
    if (vf_bool())
    {
        vf_alloc_faults++;
        return NULL;
    }
    return malloc(n);
}
static inline void *vf_calloc(size_t a, size_t b)
{
    vf_alloc_calls++;
    if (vf_bool())
    {
        vf_alloc_faults++;
        return NULL;
    }
    return calloc(a, b);
}
static inline void *vf_realloc(void *p, size_t n)
{
    vf_alloc_calls++;
    if (vf_bool())
    {
        vf_alloc_faults++;
        return NULL;
    }
    return realloc(p, n);
}
# ifdef VF_NATIVE
/* native replay: count live blocks of the unit under test so that leak
   assertions (VF_LIVE_BLOCKS) reproduce deterministically */
static int vf_native_live;
static inline void *vf_malloc_n(size_t n)
{
    void *p = vf_malloc(n);
    vf_native_live += (p != NULL);
    return p;
}
static inline void *vf_calloc_n(size_t a, size_t b)
{
    void *p = vf_calloc(a, b);
    vf_native_live += (p != NULL);
    return p;
}
static inline void *vf_realloc_n(void *q, size_t n)
{
    void *p = vf_realloc(q, n);
    vf_native_live += (p != NULL && q == NULL);
    return p;
}
static inline void vf_free_n(void *p)
{
    vf_native_live -= (p != NULL);
    free(p);
}
#  define malloc vf_malloc_n
#  define calloc vf_calloc_n
#  define realloc vf_realloc_n
#  define free vf_free_n
#  define VF_LIVE_BLOCKS() vf_native_live
# else
#  define malloc vf_malloc
#  define calloc vf_calloc
#  define realloc vf_realloc
#  define VF_LIVE_BLOCKS() vf_heap_live
# endif
#endif

#endif /* VF_H */
