/* snprintf_model.h - CBMC has no model of snprintf.  Only the format used by
 * the iPAddress comparison ("%u.%u.%u.%u") is supported, with C99 truncation
 * semantics (at most size-1 characters, always NUL-terminated when size > 0,
 * returns the untruncated length).  Natively the real libc is used. */
#ifndef VF_SNPRINTF_MODEL_H
#define VF_SNPRINTF_MODEL_H
#ifdef VF_CBMC
#include <stdarg.h>
static int vf_put_u(char *tmp, int pos, unsigned v)
{
    if (v >= 100)
    {
        tmp[pos++] = (char) ('0' + v / 100);
    }
    if (v >= 10)
    {
        tmp[pos++] = (char) ('0' + (v / 10) % 10);
    }
    tmp[pos++] = (char) ('0' + v % 10);
    return pos;
}
int snprintf(char *str, size_t size, const char *fmt, ...)
{
    char tmp[16];
    int pos = 0, i;
    unsigned a, b, c, d;
    va_list ap;

    /* supported format only */
    __CPROVER_assert(fmt[0] == '%' && fmt[1] == 'u' && fmt[2] == '.' && fmt[9] == '%' && fmt[10] == 'u' && fmt[11] == 0,
        "VF:model.snprintf_format_supported");
    va_start(ap, fmt);
    a = va_arg(ap, unsigned);
    b = va_arg(ap, unsigned);
    c = va_arg(ap, unsigned);
    d = va_arg(ap, unsigned);
    va_end(ap);
    __CPROVER_assume(a < 256 && b < 256 && c < 256 && d < 256);
    pos = vf_put_u(tmp, pos, a);
    tmp[pos++] = '.';
    pos = vf_put_u(tmp, pos, b);
    tmp[pos++] = '.';
    pos = vf_put_u(tmp, pos, c);
    tmp[pos++] = '.';
    pos = vf_put_u(tmp, pos, d);
    for (i = 0; i < pos && (size_t) i + 1 < size; i++)
    {
        str[i] = tmp[i];
    }
    if (size > 0)
    {
        str[i] = 0;
    }
    return pos;
}
#endif
#endif
